//! C13 — M2 models survive write→parse, a second write reproduces the bytes, conversion keeps representable content;
//! the relocated key-frame offsets are those the Lean relocation model assigns.
use crate::common::*;
use std::io::Cursor;
use wow_m2::chunks::animation::{M2AnimationBlock, M2AnimationTrack};
use wow_m2::chunks::bone::M2Bone;
use wow_m2::chunks::material::{M2BlendMode, M2Material};
use wow_m2::chunks::{M2Attachment, M2Event, M2InterpolationType, M2TransparencyAnimation, M2Vertex};
use wow_m2::common::{C2Vector, C3Vector, M2Array, M2Vec};
use wow_m2::header::M2Header;
use wow_m2::chunks::camera::M2Camera;
use wow_m2::model::{AttachmentAnimationRaw, AttachmentTrackType, BoneAnimationRaw, CameraAnimationRaw, CameraTrackType, EventRaw, TrackType};
use wow_m2::{M2Model, M2Version};

const VERSIONS: [M2Version; 5] = [M2Version::Vanilla, M2Version::TBC, M2Version::WotLK, M2Version::Cataclysm, M2Version::MoP];

fn f(rng: &mut Rng) -> f32 { (rng.below(80_000) as f32) / 64.0 - 500.0 }
fn u32s(v: &[u32]) -> Vec<u8> { v.iter().flat_map(|x| x.to_le_bytes()).collect() }
fn f32s(v: &[f32]) -> Vec<u8> { v.iter().flat_map(|x| x.to_le_bytes()).collect() }
fn count(rng: &mut Rng) -> usize { match rng.below(4) { 0 => 0, 1 => 1, _ => rng.range(2, 5) as usize } }

/// one animated track as the generator sees it: which blobs (by original offset) it refers to
pub struct Tr { pub bone: usize, pub ty: TrackType, pub ts: (u32, Vec<u8>), pub vals: (u32, Vec<u8>), pub ranges: Option<(u32, Vec<u8>)> }

pub fn gen_model(rng: &mut Rng, version: M2Version) -> (M2Model, Vec<Tr>) {
    let pre = version.to_header_version() < 264;
    let mut m = M2Model::default();
    m.header = M2Header::new(version);
    // model flags decide which optional header fields exist (the header's own length, hence every offset behind it)
    m.header.flags = wow_m2::header::M2ModelFlags::from_bits_truncate(match rng.below(4) { 0 => 0, 1 => 0x8, 2 => rng.below(0x80) as u32, _ => (rng.below(0x4000) as u32) & !0x2000 });
    m.name = Some(format!("World\\Generic\\{}", "Prop".repeat(rng.range(1, 9) as usize)));
    m.global_sequences = (0..count(rng)).map(|_| rng.below(5000) as u32).collect();
    let nb = count(rng).max(1);
    // a pool of time lines and value arrays, some shared between tracks
    let mut next_off = 0x1000u32;
    let mut pool_ts: Vec<(u32, Vec<u8>, usize)> = vec![]; // (offset, bytes, key count)
    for _ in 0..3 { let n = rng.range(1, 4) as usize; let mut t = 0u32; let v: Vec<u32> = (0..n).map(|_| { t += rng.range(1, 900) as u32; t }).collect(); pool_ts.push((next_off, u32s(&v), n)); next_off += 0x100; }
    let mut tracks: Vec<Tr> = vec![];
    let mut shared_vals: Option<(u32, Vec<u8>, usize)> = None;
    for i in 0..nb {
        let mut b = M2Bone::new(i as i32, i as i16 - 1);
        b.pivot = C3Vector { x: f(rng), y: f(rng), z: f(rng) };
        if pre { b.translation.ranges = Some(M2Array::new(0, 0)); b.rotation.ranges = Some(M2Array::new(0, 0)); b.scale.ranges = Some(M2Array::new(0, 0)); }
        for ty in [TrackType::Translation, TrackType::Scale] {
            if !rng.chance(1, 2) { continue; }
            let (to, tb, n) = pool_ts[rng.below(3) as usize].clone();
            // values: mostly own, sometimes the very array another track with the same key count uses
            let (vo, vb) = match &shared_vals { Some((o, b, k)) if *k == n && rng.chance(1, 3) => (*o, b.clone()), _ => { let o = next_off; next_off += 0x100; let b = f32s(&(0..3 * n).map(|_| f(rng)).collect::<Vec<_>>()); if rng.chance(1, 2) { shared_vals = Some((o, b.clone(), n)); } (o, b) } };
            let rg = if pre && rng.chance(1, 2) { let o = next_off; next_off += 0x100; Some((o, u32s(&[0, (n - 1) as u32]))) } else { None };
            let tr = if ty == TrackType::Translation { &mut b.translation } else { &mut b.scale };
            tr.base.interpolation_type = M2InterpolationType::Linear;
            tr.timestamps = M2Array::new(n as u32, to);
            tr.values = M2Array::new(n as u32, vo);
            if let Some((o, _)) = &rg { tr.ranges = Some(M2Array::new(1, *o)); }
            m.raw_data.bone_animation_data.push(BoneAnimationRaw { bone_index: i, track_type: ty, timestamps: tb.clone(), values: vb.clone(), ranges: rg.as_ref().map(|r| r.1.clone()), original_timestamps_offset: to, original_values_offset: vo, original_ranges_offset: rg.as_ref().map(|r| r.0) });
            tracks.push(Tr { bone: i, ty, ts: (to, tb), vals: (vo, vb), ranges: rg });
        }
        m.bones.push(b);
    }
    m.key_bone_lookup = (0..nb as u16).collect();
    for _ in 0..count(rng) { m.vertices.push(M2Vertex { position: C3Vector { x: f(rng), y: f(rng), z: f(rng) }, bone_weights: [255, 0, 0, 0], bone_indices: [rng.below(nb as u64) as u8, 0, 0, 0], normal: C3Vector { x: 0.0, y: 0.0, z: 1.0 }, tex_coords: C2Vector { x: f(rng), y: f(rng) }, tex_coords2: Some(C2Vector { x: f(rng), y: f(rng) }) }); }
    // textures: file-backed ones with a name (count includes the terminator, as in shipped files) and nameless typed ones
    for k in 0..count(rng) {
        let named = rng.chance(2, 3);
        let name = format!("World\\Textures\\{}_{k}.blp", "t".repeat(rng.range(1, 12) as usize));
        let fnm = if named { wow_m2::common::M2ArrayString { string: wow_m2::common::FixedString { data: name.into_bytes() }, array: M2Array::new(0, 0x9000 + 0x100 * k as u32) } } else { wow_m2::common::M2ArrayString { string: wow_m2::common::FixedString { data: vec![] }, array: M2Array::new(0, 0) } };
        let mut fnm = fnm; if named { fnm.array.count = fnm.string.data.len() as u32 + 1; }
        let mut t = wow_m2::chunks::texture::M2Texture::new(if named { wow_m2::chunks::texture::M2TextureType::Hardcoded } else { wow_m2::chunks::texture::M2TextureType::Body }, fnm);
        t.flags = wow_m2::chunks::texture::M2TextureFlags::from_bits_truncate(rng.below(4) as u32);
        m.textures.push(t);
    }
    for _ in 0..count(rng) { m.materials.push(M2Material::new(M2BlendMode::OPAQUE)); }
    m.raw_data.transparency_lookup_table = vec![0];
    for _ in 0..count(rng) { m.transparency_animations.push(M2TransparencyAnimation::new()); }
    for k in 0..count(rng) {
        let mut ev = M2Event::new(*rng.pick(&[*b"$CAH", *b"$HIT", *b"$FSD"]), 0);
        ev.data = rng.below(500) as u32;
        if rng.chance(1, 2) { let n = rng.range(1, 4) as usize; let times: Vec<u32> = (0..n as u32).map(|j| j * 100 + rng.below(90) as u32).collect(); let off = 0x3000 + 0x100 * k as u32;
            ev.times = M2Array::new(n as u32, off);
            // per-animation ranges (the older layout keeps them next to the time line)
            let (rb, ro) = if pre && rng.chance(1, 2) { let nr = rng.range(1, 3) as usize; let r: Vec<u32> = (0..2 * nr as u32).map(|j| j * 7 + rng.below(5) as u32).collect(); ev.ranges = M2Array::new(nr as u32, off + 0x80); (u32s(&r), off + 0x80) } else { (Vec::new(), 0) };
            m.raw_data.event_data.push(EventRaw { event_index: k, ranges: rb, original_ranges_offset: ro, timestamps: u32s(&times), original_timestamps_offset: off }); }
        m.events.push(ev);
    }
    for k in 0..count(rng) {
        let animated = rng.chance(1, 2);
        let n = rng.range(1, 3) as usize;
        let (to, vo) = (0x4000 + 0x200 * k as u32, 0x4100 + 0x200 * k as u32);
        m.attachments.push(M2Attachment { id: rng.below(60) as u32, bone_index: 0, position: C3Vector { x: f(rng), y: f(rng), z: f(rng) },
            scale_animation: if animated { M2AnimationBlock::new(M2AnimationTrack { interpolation_type: M2InterpolationType::Linear, global_sequence: -1, interpolation_ranges: M2Array::new(0, 0), timestamps: M2Array::new(n as u32, to), values: M2Vec { array: M2Array::new(n as u32, vo), data: Vec::new() } }) } else { M2Attachment::new(0, 0).scale_animation } });
        if animated { m.raw_data.attachment_animation_data.push(AttachmentAnimationRaw { attachment_index: k, track_type: AttachmentTrackType::Scale, interpolation_ranges: Vec::new(), timestamps: u32s(&(0..n as u32).map(|j| j * 300).collect::<Vec<_>>()), values: f32s(&(0..n).map(|_| f(rng)).collect::<Vec<_>>()), original_ranges_offset: 0, original_timestamps_offset: to, original_values_offset: vo }); }
    }
    m.raw_data.attachment_lookup_table = vec![0];
    // cameras: one still, the others with any subset of their three tracks (position, target, roll) animated
    let ncam = count(rng).min(3);
    for k in 0..ncam {
        let mut cam = M2Camera::new(0);
        cam.camera_type = k as u32; cam.fov = f(rng); cam.far_clip = f(rng); cam.near_clip = f(rng);
        cam.position_base = C3Vector { x: f(rng), y: f(rng), z: f(rng) };
        cam.target_position_base = C3Vector { x: f(rng), y: f(rng), z: f(rng) };
        if k > 0 {
            for (ti, tt) in [CameraTrackType::Position, CameraTrackType::TargetPosition, CameraTrackType::Roll].into_iter().enumerate() {
                if !rng.chance(2, 3) { continue; }
                let n = rng.range(1, 4) as usize;
                let (to, vo) = (0x6000 + 0x600 * k as u32 + 0x200 * ti as u32, 0x6100 + 0x600 * k as u32 + 0x200 * ti as u32);
                let vs = if tt == CameraTrackType::Roll { 1 } else { 3 };
                let ts = u32s(&(0..n as u32).map(|j| j * 250 + rng.below(200) as u32).collect::<Vec<_>>());
                let vals = f32s(&(0..n * vs).map(|_| f(rng)).collect::<Vec<_>>());
                fn blk<T: wow_m2::common::M2Parse>(n: usize, to: u32, vo: u32) -> M2AnimationBlock<T> {
                    let mut t = M2AnimationTrack::<T>::default(); t.interpolation_type = M2InterpolationType::Linear;
                    t.timestamps = M2Array::new(n as u32, to); t.values = M2Vec { array: M2Array::new(n as u32, vo), data: Vec::new() };
                    M2AnimationBlock::new(t)
                }
                match tt { CameraTrackType::Position => cam.position_animation = blk::<C3Vector>(n, to, vo), CameraTrackType::TargetPosition => cam.target_position_animation = blk::<C3Vector>(n, to, vo), _ => cam.roll_animation = blk::<f32>(n, to, vo) }
                m.raw_data.camera_animation_data.push(CameraAnimationRaw { camera_index: k, track_type: tt, interpolation_ranges: Vec::new(), timestamps: ts, values: vals, original_ranges_offset: 0, original_timestamps_offset: to, original_values_offset: vo });
            }
        }
        m.cameras.push(cam);
    }
    m.raw_data.camera_lookup_table = (0..ncam as u16).collect();
    // pre-WotLK models carry their skin profiles inside the file: 0..2 of them, every list empty / one / many elements
    if m.header.version <= 263 {
        let sub = if m.header.version < 260 { 32 } else { 48 };
        for _ in 0..rng.below(3) {
            let (ni, nt, np, ns, nb) = (count(rng), count(rng) * 3, count(rng), count(rng), [0usize, 1, 2, 3, 4, 5, 8][rng.below(7) as usize]);
            let mut mv = vec![0u8; 44]; mv[40..44].copy_from_slice(&(rng.below(64) as u32).to_le_bytes());
            m.raw_data.embedded_skins.push(wow_m2::model::EmbeddedSkinRaw { model_view: mv, indices: rng.bytes(ni * 2), triangles: rng.bytes(nt * 2), properties: rng.bytes(np * 4), submeshes: rng.bytes(ns * sub), batches: rng.bytes(nb * 24),
                original_model_view_offset: 0, original_indices_offset: 0, original_triangles_offset: 0, original_properties_offset: 0, original_submeshes_offset: 0, original_batches_offset: 0 });
        }
    }
    (m, tracks)
}

fn write(m: &M2Model) -> Result<Vec<u8>, String> { let m = m.clone(); match std::panic::catch_unwind(move || { let mut c = Cursor::new(Vec::new()); m.write(&mut c).map(|_| c.into_inner()) }) { Ok(Ok(b)) => Ok(b), Ok(Err(e)) => Err(e.to_string()), Err(_) => Err("writer panics".into()) } }
fn parse(b: &[u8]) -> Result<M2Model, String> { let b = b.to_vec(); match std::panic::catch_unwind(move || M2Model::parse(&mut Cursor::new(b))) { Ok(Ok(m)) => Ok(m), Ok(Err(e)) => Err(e.to_string()), Err(_) => Err("parser panics".into()) } }

fn slice(b: &[u8], off: u32, len: usize) -> Vec<u8> { let o = off as usize; if o + len <= b.len() { b[o..o + len].to_vec() } else { vec![0xEE] } }

/// content of a model as read back: structures through the parser, key frames through the (count, offset) pairs in the file
fn canon(m: &M2Model, bytes: &[u8]) -> Vec<(String, String)> {
    let tr = |t: &wow_m2::chunks::m2_track::M2Track<C3Vector>| format!("{:?}/{}/{}/{:?}", t.base.interpolation_type, hex(&slice(bytes, t.timestamps.offset, t.timestamps.count as usize * 4)), hex(&slice(bytes, t.values.offset, t.values.count as usize * 12)), t.ranges.as_ref().map(|r| hex(&slice(bytes, r.offset, r.count as usize * 8))));
    vec![
        ("name".into(), format!("{:?}", m.name)),
        ("flags".into(), format!("{:#x}", m.header.flags.bits())),
        ("global sequences".into(), format!("{:?}", m.global_sequences)),
        ("bones".into(), format!("{:?}", m.bones.iter().map(|b| (b.bone_id, b.parent_bone, b.flags.bits(), (b.pivot.x.to_bits(), b.pivot.y.to_bits(), b.pivot.z.to_bits()), tr(&b.translation), tr(&b.scale))).collect::<Vec<_>>())),
        ("preserved bone key frames".into(), format!("{:?}", m.raw_data.bone_animation_data.iter().map(|a| (a.bone_index, a.track_type, hex(&a.timestamps), hex(&a.values), a.ranges.as_ref().map(|r| hex(r)))).collect::<Vec<_>>())),
        ("key bone lookup".into(), format!("{:?}", m.key_bone_lookup)),
        ("vertices".into(), format!("{:?}", m.vertices.iter().map(|v| (v.position.x.to_bits(), v.position.y.to_bits(), v.position.z.to_bits(), v.bone_weights, v.bone_indices, v.tex_coords.x.to_bits(), v.tex_coords.y.to_bits(), v.tex_coords2.map(|t| (t.x.to_bits(), t.y.to_bits())))).collect::<Vec<_>>())),
        ("materials".into(), format!("{}", m.materials.len())),
        ("textures".into(), format!("{:?}", m.textures.iter().map(|t| (t.texture_type as u32, t.flags.bits(), String::from_utf8_lossy(&t.filename.string.data).to_string())).collect::<Vec<_>>())),
        ("transparency".into(), format!("{}", m.transparency_animations.len())),
        ("events".into(), format!("{:?}", m.events.iter().map(|e| (e.identifier, e.data, e.bone_index, hex(&slice(bytes, e.times.offset, e.times.count as usize * 4)), hex(&slice(bytes, e.ranges.offset, e.ranges.count as usize * 8)))).collect::<Vec<_>>())),
        ("preserved event times".into(), format!("{:?}", m.raw_data.event_data.iter().map(|e| (e.event_index, hex(&e.timestamps), hex(&e.ranges))).collect::<Vec<_>>())),
        ("attachments".into(), format!("{:?}", m.attachments.iter().map(|a| (a.id, a.bone_index, a.position.x.to_bits(), a.position.y.to_bits(), a.position.z.to_bits(), hex(&slice(bytes, a.scale_animation.track.timestamps.offset, a.scale_animation.track.timestamps.count as usize * 4)), hex(&slice(bytes, a.scale_animation.track.values.array.offset, a.scale_animation.track.values.array.count as usize * 4)))).collect::<Vec<_>>())),
        ("preserved attachment key frames".into(), format!("{:?}", m.raw_data.attachment_animation_data.iter().map(|a| (a.attachment_index, hex(&a.timestamps), hex(&a.values))).collect::<Vec<_>>())),
        ("cameras".into(), format!("{:?}", m.cameras.iter().map(|c| { let k = |ts: &M2Array<u32>, vs: (u32, u32), w: usize| format!("{}/{}", hex(&slice(bytes, ts.offset, ts.count as usize * 4)), hex(&slice(bytes, vs.1, vs.0 as usize * w)));
            (c.camera_type, c.fov.to_bits(), c.far_clip.to_bits(), c.near_clip.to_bits(), (c.position_base.x.to_bits(), c.position_base.y.to_bits(), c.position_base.z.to_bits()), (c.target_position_base.x.to_bits(), c.target_position_base.y.to_bits(), c.target_position_base.z.to_bits()),
             k(&c.position_animation.track.timestamps, (c.position_animation.track.values.array.count, c.position_animation.track.values.array.offset), 12),
             k(&c.target_position_animation.track.timestamps, (c.target_position_animation.track.values.array.count, c.target_position_animation.track.values.array.offset), 12),
             k(&c.roll_animation.track.timestamps, (c.roll_animation.track.values.array.count, c.roll_animation.track.values.array.offset), 4)) }).collect::<Vec<_>>())),
        ("preserved camera key frames".into(), format!("{:?}", m.raw_data.camera_animation_data.iter().map(|a| (a.camera_index, a.track_type, hex(&a.timestamps), hex(&a.values))).collect::<Vec<_>>())),
        ("camera lookup".into(), format!("{:?}", m.raw_data.camera_lookup_table)),
        // pre-WotLK: the skin profiles inside the model file (every list with its element count, as the reader sizes them)
        ("embedded skins".into(), format!("{:?}", m.raw_data.embedded_skins.iter().map(|k| (hex(&k.indices), hex(&k.triangles), hex(&k.properties), hex(&k.submeshes), hex(&k.batches), hex(&k.model_view[k.model_view.len().saturating_sub(4)..]))).collect::<Vec<_>>())),
    ]
}

/// what the generator put in, rendered the same way (key frames from the blobs)
fn expected(m: &M2Model, tracks: &[Tr]) -> Vec<(String, String)> {
    let tr = |bi: usize, ty: TrackType, t: &wow_m2::chunks::m2_track::M2Track<C3Vector>| match tracks.iter().find(|x| x.bone == bi && x.ty == ty) {
        Some(x) => format!("{:?}/{}/{}/{:?}", t.base.interpolation_type, hex(&x.ts.1), hex(&x.vals.1), t.ranges.as_ref().map(|_| x.ranges.as_ref().map(|r| hex(&r.1)).unwrap_or_else(|| "-".into()))),
        None => format!("{:?}/-/-/{:?}", t.base.interpolation_type, t.ranges.as_ref().map(|_| "-".to_string())) };
    let mut v = canon(m, &[]);
    v[3].1 = format!("{:?}", m.bones.iter().enumerate().map(|(i, b)| (b.bone_id, b.parent_bone, b.flags.bits(), (b.pivot.x.to_bits(), b.pivot.y.to_bits(), b.pivot.z.to_bits()), tr(i, TrackType::Translation, &b.translation), tr(i, TrackType::Scale, &b.scale))).collect::<Vec<_>>());
    v[10].1 = format!("{:?}", m.events.iter().enumerate().map(|(i, e)| (e.identifier, e.data, e.bone_index, m.raw_data.event_data.iter().find(|r| r.event_index == i).map(|r| hex(&r.timestamps)).unwrap_or_else(|| "-".into()), m.raw_data.event_data.iter().find(|r| r.event_index == i).map(|r| hex(&r.ranges)).unwrap_or_else(|| "-".into()))).collect::<Vec<_>>());
    v[14].1 = format!("{:?}", m.cameras.iter().enumerate().map(|(i, c)| { let k = |tt: CameraTrackType| m.raw_data.camera_animation_data.iter().find(|r| r.camera_index == i && r.track_type == tt).map(|r| format!("{}/{}", hex(&r.timestamps), hex(&r.values))).unwrap_or_else(|| "-/-".into());
            (c.camera_type, c.fov.to_bits(), c.far_clip.to_bits(), c.near_clip.to_bits(), (c.position_base.x.to_bits(), c.position_base.y.to_bits(), c.position_base.z.to_bits()), (c.target_position_base.x.to_bits(), c.target_position_base.y.to_bits(), c.target_position_base.z.to_bits()),
             k(CameraTrackType::Position), k(CameraTrackType::TargetPosition), k(CameraTrackType::Roll)) }).collect::<Vec<_>>());
    v[12].1 = format!("{:?}", m.attachments.iter().enumerate().map(|(i, a)| { let r = m.raw_data.attachment_animation_data.iter().find(|r| r.attachment_index == i); (a.id, a.bone_index, a.position.x.to_bits(), a.position.y.to_bits(), a.position.z.to_bits(), r.map(|r| hex(&r.timestamps)).unwrap_or_else(|| "-".into()), r.map(|r| hex(&r.values)).unwrap_or_else(|| "-".into())) }).collect::<Vec<_>>());
    v
}

fn skin_canon(s: &wow_m2::skin::SkinFile) -> String {
    format!("i{:?}|t{:?}|b{:?}|s{:?}|m{:?}", s.indices(), s.triangles(), s.bone_indices(),
        s.submeshes().iter().map(|x| (x.id, x.level, x.vertex_start, x.vertex_count, x.triangle_start, x.triangle_count, x.bone_count, x.bone_start, x.bone_influence, x.center.map(|v| v.to_bits()), x.sort_center.map(|v| v.to_bits()), x.bounding_radius.to_bits())).collect::<Vec<_>>(),
        s.batches().iter().map(|b| format!("{:?}", b)).collect::<Vec<_>>())
}

/// a small valid skin file in either layout (C05 corpus)
pub fn skin_bytes(rng: &mut Rng, old: bool) -> Option<Vec<u8>> {
    use wow_m2::skin::{OldSkin, OldSkinHeader, Skin, SkinBatch, SkinFile, SkinHeader, SkinSubmesh};
    let indices: Vec<u16> = (0..9).map(|_| rng.below(40) as u16).collect();
    let triangles: Vec<u16> = (0..9).map(|_| rng.below(9) as u16).collect();
    let bone_indices: Vec<u8> = (0..36).map(|_| rng.below(8) as u8).collect();
    let submeshes = vec![SkinSubmesh { id: 0, level: 0, vertex_start: 0, vertex_count: 9, triangle_start: 0, triangle_count: 9, bone_count: 1, bone_start: 0, bone_influence: 1, center: [0.0; 3], sort_center: [0.0; 3], bounding_radius: 1.0 }];
    let batches = vec![SkinBatch { flags: 0, priority_plane: 0, shader_id: 0, skin_section_index: 0, geoset_index: 0, color_index: 0xFFFF, material_index: 0, material_layer: 0, texture_count: 1, texture_combo_index: 0, texture_coord_combo_index: 0, texture_weight_combo_index: 0, texture_transform_combo_index: 0xFFFF }];
    let f = if old { SkinFile::Old(OldSkin { header: OldSkinHeader::new(), indices, triangles, bone_indices, submeshes, batches }) } else { SkinFile::New(Skin { header: SkinHeader::new(wow_m2::M2Version::WotLK), indices, triangles, bone_indices, submeshes, batches }) };
    let mut c = Cursor::new(Vec::new()); f.write(&mut c).ok()?; Some(c.into_inner())
}

// ---------- .anim files (modern container): write -> parse -> write, conversion, and Model.C13Anim ----------
use wow_m2::anim::{AnimBoneAnimation, AnimEntry, AnimFile, AnimFormat, AnimHeader, AnimMetadata, AnimRotation, AnimScaling, AnimSection, AnimSectionHeader, AnimTranslation};

fn dots(v: &[u32]) -> String { v.iter().map(|x| x.to_string()).collect::<Vec<_>>().join(".") }
pub fn anim_canon(f: &AnimFile) -> String {
    let (ver, unk) = match &f.metadata { AnimMetadata::Modern { header, .. } => (header.version, header.unknown), _ => (0, 0) };
    let mut s = format!("v{ver} u{unk}");
    for sec in &f.sections {
        s += &format!(" S{},{},{}", sec.header.id, sec.header.start, sec.header.end);
        for b in &sec.bone_animations {
            let t = match &b.translation { None => "-".to_string(), Some(t) => format!("{}|{}", dots(&t.timestamps), dots(&t.translations.iter().flat_map(|v| [v.x.to_bits(), v.y.to_bits(), v.z.to_bits()]).collect::<Vec<_>>())) };
            let r = match &b.rotation { None => "-".to_string(), Some(t) => format!("{}|{}", dots(&t.timestamps), dots(&t.rotations.iter().flat_map(|v| [v.x.to_bits(), v.y.to_bits(), v.z.to_bits(), v.w.to_bits()]).collect::<Vec<_>>())) };
            let c = match &b.scaling { None => "-".to_string(), Some(t) => format!("{}|{}", dots(&t.timestamps), dots(&t.scalings.iter().flat_map(|v| [v.x.to_bits(), v.y.to_bits(), v.z.to_bits()]).collect::<Vec<_>>())) };
            s += &format!(" B{}:{t}/{r}/{c}", b.bone_id);
        }
    }
    s
}
fn fl(rng: &mut Rng) -> f32 { if rng.chance(1, 6) { f32::from_bits(rng.u32() & 0xFF7F_FFFF) } else { f(rng) } }
fn gen_anim(rng: &mut Rng, named_empty_bones: bool) -> AnimFile {
    let nsec = rng.range(0, 4) as usize;
    let mut sections = vec![];
    for si in 0..nsec {
        let nb = match rng.below(5) { 0 => 0, 1 => 1, _ => rng.range(1, 6) as usize };
        let mut bones = vec![];
        for bi in 0..nb {
            let mask = rng.below(8);
            let keys = |rng: &mut Rng| match rng.below(4) { 0 => 0usize, 1 => 1, _ => rng.range(1, 5) as usize };
            let translation = if mask & 1 != 0 { let n = keys(rng); Some(AnimTranslation { timestamps: (0..n).map(|k| k as u32 * 33 + rng.below(9) as u32).collect(), translations: (0..n).map(|_| C3Vector { x: fl(rng), y: fl(rng), z: fl(rng) }).collect() }) } else { None };
            let rotation = if mask & 2 != 0 { let n = keys(rng); Some(AnimRotation { timestamps: (0..n).map(|k| k as u32 * 10).collect(), rotations: (0..n).map(|_| wow_m2::common::Quaternion { x: fl(rng), y: fl(rng), z: fl(rng), w: fl(rng) }).collect() }) } else { None };
            let scaling = if mask & 4 != 0 { let n = keys(rng); Some(AnimScaling { timestamps: (0..n).map(|_| rng.u32()).collect(), scalings: (0..n).map(|_| C3Vector { x: fl(rng), y: fl(rng), z: fl(rng) }).collect() }) } else { None };
            let bone_id = if mask == 0 && !named_empty_bones { 0 } else { (bi as u32) * 3 + rng.below(3) as u32 + if mask == 0 { 1 } else { 0 } };
            bones.push(AnimBoneAnimation { bone_id, translation, rotation, scaling });
        }
        sections.push(AnimSection { header: AnimSectionHeader { magic: *b"AFID", id: 4 + si as u32 * 7, start: rng.below(100) as u32, end: 100 + rng.below(5000) as u32 }, bone_animations: bones });
    }
    let entries = sections.iter().map(|s| AnimEntry { id: s.header.id, offset: 0, size: 0 }).collect();
    AnimFile { format: AnimFormat::Modern, metadata: AnimMetadata::Modern { header: AnimHeader { magic: *b"MAOF", version: 1 + rng.below(3) as u32, id_count: sections.len() as u32, unknown: rng.below(3) as u32, anim_entry_offset: 20 }, entries }, sections }
}
fn anim_write(f: &AnimFile) -> Result<Vec<u8>, String> { let f = f.clone(); match std::panic::catch_unwind(move || { let mut c = Cursor::new(Vec::new()); f.write(&mut c).map(|_| c.into_inner()) }) { Ok(Ok(b)) => Ok(b), Ok(Err(e)) => Err(e.to_string()), Err(_) => Err("writer panics".into()) } }
fn anim_parse(b: &[u8]) -> Result<AnimFile, String> { let b = b.to_vec(); match std::panic::catch_unwind(move || AnimFile::parse(&mut Cursor::new(b))) { Ok(Ok(m)) => Ok(m), Ok(Err(e)) => Err(e.to_string()), Err(_) => Err("parser panics".into()) } }

fn run_anims(ctx: &mut Ctx) {
    let n = if ctx.thorough { 600 } else { 80 };
    for k in 0..n {
        let named = k % 10 == 9; // a bone without tracks that carries an id: nothing of it is stored (known finding)
        let f = gen_anim(&mut ctx.rng, named);
        let desc = format!("anim sections={} bones={:?} named_empty_bones={named}", f.sections.len(), f.sections.iter().map(|s| s.bone_animations.len()).collect::<Vec<_>>());
        ctx.out.stat(&format!("c13.anim.sections.{}", f.sections.len()));
        let bytes = match anim_write(&f) { Ok(b) => b, Err(e) => { ctx.out.oracle(false, "anim-writer-fails", &format!("{desc}: {e}")); continue; } };
        let want = anim_canon(&f);
        match anim_parse(&bytes) {
            Err(e) => ctx.out.oracle(false, "anim-own-output-does-not-parse", &format!("{desc}: {e}")),
            Ok(g) => {
                let got = anim_canon(&g);
                let same = got == want;
                ctx.out.oracle(same, if named { "anim-empty-bone-id-not-preserved" } else { "anim-content-differs-after-write-parse" }, &format!("{desc}: wrote {want} read {got}"));
                match anim_write(&g) { Ok(b2) => ctx.out.oracle(b2 == bytes, "anim-second-write-differs", &desc), Err(e) => ctx.out.oracle(false, "anim-writer-fails", &format!("{desc} (second write): {e}")) }
                if same && bytes.len() > 60 { ctx.out.nontrivial(bytes.as_slice()); }
                // same-version conversion changes nothing; conversion to the other container keeps the sections
                let same_ver = g.convert(M2Version::Legion);
                ctx.out.oracle(anim_canon(&same_ver) == got && same_ver.format == AnimFormat::Modern, "anim-same-version-conversion-changes-content", &desc);
                let legacy = g.convert(M2Version::WotLK); let back = legacy.convert(M2Version::Legion);
                ctx.out.oracle(back.sections.len() == g.sections.len() && back.sections.iter().zip(&g.sections).all(|(a, b)| a.header.id == b.header.id && a.bone_animations.len() == b.bone_animations.len()), "anim-conversion-loses-sections", &desc);
                // (M) the model reads the same bytes and lays the same content out again
                ctx.out.case(&format!("c13animparse {}", hex(&bytes)), &got);
                ctx.out.case(&format!("c13animrw {}", hex(&bytes)), &hex(&bytes));
            }
        }
    }
    // the legacy container: what the writer emits for a file with content is not read back (the reader is a placeholder)
    {
        let f = gen_anim(&mut Rng::new(77), false).convert(M2Version::WotLK);
        if let Ok(b) = anim_write(&f) { match anim_parse(&b) {
            Ok(g) => ctx.out.oracle(g.sections.len() == f.sections.len() && g.sections.iter().zip(&f.sections).all(|(a, b)| a.header.id == b.header.id && a.bone_animations.len() == b.bone_animations.len()), "anim-legacy-content-not-read-back", &format!("legacy container: wrote {} sections {:?}, read {} sections {:?}", f.sections.len(), f.sections.iter().map(|s| (s.header.id, s.bone_animations.len())).collect::<Vec<_>>(), g.sections.len(), g.sections.iter().map(|s| (s.header.id, s.bone_animations.len())).collect::<Vec<_>>())),
            Err(e) => ctx.out.oracle(false, "anim-legacy-content-not-read-back", &format!("legacy container: own output does not parse: {e}")) } }
    }
}

fn run_skins(ctx: &mut Ctx) {
    use wow_m2::skin::{OldSkin, OldSkinHeader, Skin, SkinBatch, SkinFile, SkinHeader, SkinSubmesh};
    let n = if ctx.thorough { 200 } else { 40 };
    for k in 0..n {
        let rng = &mut ctx.rng;
        let ver = VERSIONS[(k % 5) as usize];
        let old = k % 2 == 0;
        // the old layout is told from the new one by "second dword > 4" (= its index count): tiny old skins are ambiguous
        // (known finding D40); most old-layout cases therefore carry at least 6 indices
        let tiny_old = old && k % 10 == 0;
        let ni = if old && !tiny_old { (count(rng) + 2) * 3 } else if tiny_old { rng.below(2) as usize * 3 } else { count(rng) * 3 };
        let indices: Vec<u16> = (0..ni).map(|_| rng.below(400) as u16).collect();
        let triangles: Vec<u16> = (0..count(rng) * 3).map(|_| rng.below(ni.max(1) as u64) as u16).collect();
        // the bone-index table has its own length (whole 4-byte entries): one case in three it differs from the vertex lookup's
        let nb = if k % 3 == 1 { *rng.pick(&[0usize, 1, ni / 2, ni + 1, ni + 3, 2 * ni + 1]) } else { ni };
        let bone_indices: Vec<u8> = (0..nb * 4).map(|_| rng.below(40) as u8).collect();
        let submeshes: Vec<SkinSubmesh> = (0..count(rng)).map(|i| SkinSubmesh { id: i as u16, level: 0, vertex_start: 0, vertex_count: ni as u16, triangle_start: 0, triangle_count: triangles.len() as u16, bone_count: rng.below(9) as u16, bone_start: rng.below(9) as u16, bone_influence: rng.below(5) as u16, center: [f(rng), f(rng), f(rng)], sort_center: [f(rng), f(rng), f(rng)], bounding_radius: f(rng) }).collect();
        let batches: Vec<SkinBatch> = (0..count(rng)).map(|_| SkinBatch { flags: rng.below(32) as u8, priority_plane: rng.below(5) as i8, shader_id: rng.below(9) as u16, skin_section_index: 0, geoset_index: 0, color_index: 0xFFFF, material_index: rng.below(4) as u16, material_layer: 0, texture_count: 1, texture_combo_index: rng.below(4) as u16, texture_coord_combo_index: 0, texture_weight_combo_index: 0, texture_transform_combo_index: 0xFFFF }).collect();
        let file = if old { SkinFile::Old(OldSkin { header: OldSkinHeader::new(), indices, triangles, bone_indices, submeshes, batches }) } else { SkinFile::New(Skin { header: SkinHeader::new(ver), indices, triangles, bone_indices, submeshes, batches }) };
        let desc = format!("skin {} {ver:?} indices={} triangles={} bone_entries={} submeshes={} batches={}", if old { "old" } else { "new" }, file.indices().len(), file.triangles().len(), file.bone_indices().len() / 4, file.submeshes().len(), file.batches().len());
        ctx.out.stat(if old { "c13.skin.old" } else { "c13.skin.new" });
        let wr = |f: &SkinFile| -> Result<Vec<u8>, String> { let f = f.clone(); match std::panic::catch_unwind(move || { let mut c = Cursor::new(Vec::new()); f.write(&mut c).map(|_| c.into_inner()) }) { Ok(Ok(b)) => Ok(b), Ok(Err(e)) => Err(e.to_string()), Err(_) => Err("writer panics".into()) } };
        let bytes = match wr(&file) { Ok(b) => b, Err(e) => { ctx.out.oracle(false, "skin-write-fails", &format!("{e} :: {desc}")); continue; } };
        // Model.C13Skin: the five (count, offset) pairs in the written header and the file size against the section layout
        {
            let base = if old { 4 } else { 20 };
            let hdr = if old { 48 } else if let SkinFile::New(sk) = &file { if sk.header.center_position.is_some() { 76 } else { 60 } } else { 60 };
            let rd = |o: usize| if o + 4 <= bytes.len() { u32::from_le_bytes([bytes[o], bytes[o + 1], bytes[o + 2], bytes[o + 3]]) } else { 0xDEAD_BEEF };
            let pairs: Vec<String> = (0..5).map(|k| format!("{},{}", rd(base + 8 * k), rd(base + 8 * k + 4))).collect();
            ctx.out.case(&format!("c13skin {hdr} {} {} {} {} {}", file.indices().len(), file.triangles().len(), file.bone_indices().len(), file.submeshes().len(), file.batches().len()), &format!("{} size={}", pairs.join(" "), bytes.len()));
            ctx.out.stat("c13.skin.layout");
        }
        let b2 = bytes.clone();
        let parsed = match std::panic::catch_unwind(move || SkinFile::parse(&mut Cursor::new(b2))) { Ok(Ok(p)) => p, Ok(Err(e)) => { ctx.out.oracle(false, if tiny_old { "tiny-old-skin-read-as-new-layout" } else { "own-skin-does-not-parse" }, &format!("{e} :: {desc}")); continue; } Err(_) => { ctx.out.oracle(false, "own-skin-does-not-parse", &format!("parser panics :: {desc}")); continue; } };
        let mut bad = false;
        if parsed.is_old_format() != old { ctx.out.oracle(false, if tiny_old { "tiny-old-skin-read-as-new-layout" } else { "skin-layout-not-recovered" }, &desc); continue; }
        if skin_canon(&parsed) != skin_canon(&file) { bad = true; ctx.out.oracle(false, "parsed-skin-content-differs", &desc); }
        match wr(&parsed) { Ok(b3) => if b3 != bytes { bad = true; ctx.out.oracle(false, "second-skin-write-differs", &format!("{} vs {} bytes :: {desc}", b3.len(), bytes.len())); }, Err(e) => { bad = true; ctx.out.oracle(false, "second-skin-write-fails", &format!("{e} :: {desc}")); } }
        if !bad { ctx.out.oracle(true, "", ""); ctx.out.nontrivial(desc.as_bytes()); }
    }
}

pub fn run(ctx: &mut Ctx) {
    run_anims(ctx);
    run_skins(ctx);
    let n = if ctx.thorough { 500 } else { 70 };
    for k in 0..n {
        let ver = VERSIONS[(k % 5) as usize];
        let (model, tracks) = gen_model(&mut ctx.rng, ver);
        let desc = format!("{ver:?} bones={} tracks={:?} vertices={} events={} attachments={} transparency={} globals={}", model.bones.len(), tracks.iter().map(|t| (t.bone, t.ty, t.ts.0, t.vals.0, t.ranges.as_ref().map(|r| r.0))).collect::<Vec<_>>(), model.vertices.len(), model.events.len(), model.attachments.len(), model.transparency_animations.len(), model.global_sequences.len());
        ctx.out.stat(&format!("c13.version.{ver:?}")); ctx.out.stat(&format!("c13.animated_tracks.{}", tracks.len().min(5)));
        let shared_ts = tracks.iter().enumerate().any(|(i, a)| tracks[..i].iter().any(|b| b.ts.0 == a.ts.0 && b.vals.0 != a.vals.0)); if shared_ts { ctx.out.stat("c13.shared_timeline_own_values"); }
        let bytes = match write(&model) { Ok(b) => b, Err(e) => { ctx.out.oracle(false, "model-write-fails", &format!("{e} :: {desc}")); continue; } };
        let parsed = match parse(&bytes) { Ok(p) => p, Err(e) => { ctx.out.oracle(false, "own-model-does-not-parse", &format!("{e} :: {desc}")); continue; } };
        let mut bad = false;
        for ((n, a), (_, b)) in expected(&model, &tracks).iter().zip(canon(&parsed, &bytes).iter()) { if a != b { bad = true; let i = a.bytes().zip(b.bytes()).position(|(x, y)| x != y).unwrap_or(0); ctx.out.oracle(false, "parsed-model-content-differs", &format!("{n}: wrote …{} parsed …{} :: {desc}", &a[i.saturating_sub(20)..(i + 60).min(a.len())], &b[i.saturating_sub(20)..(i + 60).min(b.len())])); break; } }
        match write(&parsed) { Ok(b2) => if b2 != bytes { bad = true; ctx.out.oracle(false, "second-model-write-differs", &format!("{} vs {} bytes, first difference at {:?} :: {desc}", b2.len(), bytes.len(), b2.iter().zip(bytes.iter()).position(|(x, y)| x != y))); }, Err(e) => { bad = true; ctx.out.oracle(false, "second-model-write-fails", &format!("{e} :: {desc}")); } }
        // relocation of preserved bone key frames: offsets in the file against the Lean relocation model
        if !tracks.is_empty() {
            let bone_size = match ver.to_header_version() { v if v < 260 => 108, v if v < 264 => 112, _ => 88 };
            let start = parsed.header.bones.offset as usize + parsed.bones.len() * bone_size;
            let mut blobs = vec![]; let mut got = vec![];
            for t in &tracks {
                let b = &parsed.bones[t.bone]; let pt = if t.ty == TrackType::Translation { &b.translation } else { &b.scale };
                blobs.push(format!("{}:{}", t.ts.0, t.ts.1.len())); got.push(pt.timestamps.offset.to_string());
                blobs.push(format!("{}:{}", t.vals.0, t.vals.1.len())); got.push(pt.values.offset.to_string());
                if let Some(r) = &t.ranges { blobs.push(format!("{}:{}", r.0, r.1.len())); got.push(pt.ranges.as_ref().map(|x| x.offset).unwrap_or(0).to_string()); }
            }
            ctx.out.case(&format!("c13reloc {start} {}", blobs.join(",")), &got.join(","));
        }
        // the other sections with preserved key frames use the same relocation scheme: ranges, timestamps, values of each
        // preserved entry in order, one slot per distinct original offset, starting where the first one lands
        {
            let mut secs: Vec<(&str, Vec<((u32, usize), u32)>)> = vec![];   // (section, [((original offset, length), offset found in the parsed file)])
            let mut ev = vec![];
            for r in &model.raw_data.event_data { if let Some(e) = parsed.events.get(r.event_index) {
                if !r.ranges.is_empty() { ev.push(((r.original_ranges_offset, r.ranges.len()), e.ranges.offset)); }
                if !r.timestamps.is_empty() { ev.push(((r.original_timestamps_offset, r.timestamps.len()), e.times.offset)); } } }
            secs.push(("events", ev));
            let mut at = vec![];
            for r in &model.raw_data.attachment_animation_data { if let Some(a) = parsed.attachments.get(r.attachment_index) {
                if !r.interpolation_ranges.is_empty() { at.push(((r.original_ranges_offset, r.interpolation_ranges.len()), a.scale_animation.track.interpolation_ranges.offset)); }
                if !r.timestamps.is_empty() { at.push(((r.original_timestamps_offset, r.timestamps.len()), a.scale_animation.track.timestamps.offset)); }
                if !r.values.is_empty() { at.push(((r.original_values_offset, r.values.len()), a.scale_animation.track.values.array.offset)); } } }
            secs.push(("attachments", at));
            let mut cm = vec![];
            for r in &model.raw_data.camera_animation_data { if let Some(c) = parsed.cameras.get(r.camera_index) {
                let (ir, ts, vs) = match r.track_type { CameraTrackType::Position => (c.position_animation.track.interpolation_ranges.offset, c.position_animation.track.timestamps.offset, c.position_animation.track.values.array.offset),
                    CameraTrackType::TargetPosition => (c.target_position_animation.track.interpolation_ranges.offset, c.target_position_animation.track.timestamps.offset, c.target_position_animation.track.values.array.offset),
                    _ => (c.roll_animation.track.interpolation_ranges.offset, c.roll_animation.track.timestamps.offset, c.roll_animation.track.values.array.offset) };
                if !r.interpolation_ranges.is_empty() { cm.push(((r.original_ranges_offset, r.interpolation_ranges.len()), ir)); }
                if !r.timestamps.is_empty() { cm.push(((r.original_timestamps_offset, r.timestamps.len()), ts)); }
                if !r.values.is_empty() { cm.push(((r.original_values_offset, r.values.len()), vs)); } } }
            secs.push(("cameras", cm));
            for (name, v) in secs { if v.is_empty() { continue; }
                let start = v[0].1;
                ctx.out.case(&format!("c13reloc {start} {}", v.iter().map(|((o, l), _)| format!("{o}:{l}")).collect::<Vec<_>>().join(",")), &v.iter().map(|(_, g)| g.to_string()).collect::<Vec<_>>().join(","));
                ctx.out.stat(&format!("c13.reloc.{name}"));
            }
        }
        // conversion: to the same version nothing changes; to another version the shared content stays
        let to = VERSIONS[((k / 5) % 5) as usize];
        match std::panic::catch_unwind(|| parsed.convert(to)) {
            Ok(Ok(conv)) => match write(&conv).and_then(|b| parse(&b).map(|p| (p, b))) {
                Ok((p2, b2)) => {
                    if to == ver && b2 != bytes { bad = true; ctx.out.oracle(false, "same-version-conversion-changes-bytes", &desc); }
                    let (a, b) = (canon(&parsed, &bytes), canon(&p2, &b2));
                    let same_side = (ver.to_header_version() < 264) == (to.to_header_version() < 264);
                    let keep = ["name", "global sequences", "key bone lookup", "vertices", "materials", "textures", "transparency", "attachments", "camera lookup"];
                    for idx in (0..a.len()).filter(|i| keep.contains(&a[*i].0.as_str()) || (same_side && a[*i].0 == "events")) { if a[idx].1 != b[idx].1 { bad = true; ctx.out.oracle(false, "conversion-loses-content", &format!("{ver:?}->{to:?} {}: {} vs {} :: {desc}", a[idx].0, &a[idx].1[..a[idx].1.len().min(100)], &b[idx].1[..b[idx].1.len().min(100)])); break; } }
                    let bi = a.iter().position(|x| x.0 == "bones").unwrap_or(0);
                    if a[bi].1.matches("Linear").count() != b[bi].1.matches("Linear").count() || p2.bones.len() != parsed.bones.len() { bad = true; ctx.out.oracle(false, "conversion-loses-content", &format!("{ver:?}->{to:?} bones/animated tracks :: {desc}")); }
                }
                Err(e) => { bad = true; ctx.out.oracle(false, "converted-model-does-not-round-trip", &format!("{ver:?}->{to:?}: {e} :: {desc}")); }
            },
            Ok(Err(e)) => { ctx.out.stat("c13.convert_rejected"); ctx.out.known("convert-error", &format!("{e} :: {desc}")); }
            Err(_) => { bad = true; ctx.out.oracle(false, "converter-panics", &format!("{ver:?}->{to:?} :: {desc}")); }
        }
        if !bad { ctx.out.oracle(true, "", ""); ctx.out.nontrivial(desc.as_bytes()); }
    }
}
