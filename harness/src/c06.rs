//! C06 — in-place modification behaves as a persistent name→bytes map.
//! Random / boundary histories of add, replace, remove, rename, compact, flush, reopen on real archives,
//! compared (I) against a plain BTreeMap after every close+reopen and (M) slot by slot against the Lean
//! model of the hash/block tables, the append cursor and the table placement.
use crate::common::*;
use std::collections::BTreeMap;
use std::path::Path;
use std::sync::mpsc;
use std::time::Duration;
use wow_mpq::compression::CompressionMethod;
use wow_mpq::crypto::{hash_string, hash_type};
use wow_mpq::{AddFileOptions, Archive, ArchiveBuilder, AttributesOption, FormatVersion, ListfileOption, MutableArchive};

const VERS: [FormatVersion; 4] = [FormatVersion::V1, FormatVersion::V2, FormatVersion::V3, FormatVersion::V4];

#[derive(Clone, Debug)]
pub enum Op {
    Add { name: usize, data: Vec<u8>, comp: u8, enc: u8, replace: bool },
    Remove(usize),
    Rename(usize, usize),
    Compact,
    Flush,
    Reopen,
}

#[derive(Clone, Debug)]
pub struct Case {
    pub ver: usize,
    pub listfile: bool,
    pub attrs: u8,
    pub init: Vec<(usize, Vec<u8>, u8, bool)>,
    pub ops: Vec<Op>,
}

/// Name pool: two groups of names whose home slot collides in a 16-slot table (one group on the last slot, so that
/// probing wraps), names that are substrings of one another (the listfile is a text file), paths, and fillers.
pub fn pool() -> Vec<String> {
    let mut v: Vec<String> = vec![];
    let mut last = 0; let mut three = 0; let mut i = 0u32;
    while last < 6 || three < 4 {
        let n = format!("f{i}.dat");
        let home = hash_string(&n, hash_type::TABLE_OFFSET) & 15;
        if home == 15 && last < 6 { v.push(n); last += 1; } else if home == 3 && three < 4 { v.push(n); three += 1; }
        i += 1;
    }
    for n in ["a.txt", "data\\a.txt", "data\\a.txt.bak", "Data\\Sub\\b.bin", "readme", "x", "World\\Maps\\Azeroth\\Azeroth.wdt"] { v.push(n.to_string()); }
    for k in 0..14 { v.push(format!("fill\\n{k:02}.bin")); }
    v
}

fn method(comp: u8) -> CompressionMethod {
    match comp { 1 => CompressionMethod::Zlib, 2 => CompressionMethod::BZip2, 3 => CompressionMethod::Lzma, 4 => CompressionMethod::Sparse,
        // selectors whose data preparation fails (an add that reports failure after the early checks passed):
        // an unsupported combination, and ADPCM on an odd-length payload
        5 => CompressionMethod::Multiple(0x02 | 0x08), 6 => CompressionMethod::AdpcmMono, _ => CompressionMethod::None }
}
fn flag(comp: u8) -> u8 { match comp { 1 => 0x02, 2 => 0x10, 3 => 0x12, 4 => 0x20, 5 => 0x0A, 6 => 0x40, _ => 0 } }

fn gen_data(rng: &mut Rng) -> Vec<u8> {
    let n = match rng.below(10) { 0 => 0, 1 => rng.range(1, 8) as usize, 2 => rng.range(4090, 4100) as usize, 3 => rng.range(9000, 12000) as usize, _ => rng.range(9, 900) as usize };
    match rng.below(3) {
        0 => rng.bytes(n),
        1 => { let b = rng.next() as u8; vec![b; n] }
        _ => { let w = rng.bytes(7); (0..n).map(|i| w[i % 7]).collect() }
    }
}

pub fn gen_case(rng: &mut Rng, npool: usize, long: bool, k: u64) -> Case {
    let ver = (k % 4) as usize;
    let listfile = rng.chance(3, 4);
    let attrs = if rng.chance(1, 4) { rng.range(1, 2) as u8 } else { 0 };
    let n_init = match rng.below(6) { 0 => 0, 5 => rng.range(7, 10), _ => rng.range(1, 5) } as usize;
    let mut init = vec![]; let mut used = vec![false; npool];
    for _ in 0..n_init {
        let i = if rng.chance(1, 2) { rng.below(10) as usize } else { rng.below(npool as u64) as usize };
        if used[i] { continue; }
        used[i] = true;
        init.push((i, gen_data(rng), *rng.pick(&[0u8, 1, 1, 2]), rng.chance(1, 5)));
    }
    let n_ops = if long { rng.range(30, 70) } else { rng.range(1, 12) } as usize;
    // a focus set keeps histories colliding: mostly the two collision groups
    let focus = |rng: &mut Rng| -> usize { if rng.chance(3, 5) { rng.below(10) as usize } else { rng.below(npool as u64) as usize } };
    let mut ops = vec![];
    for _ in 0..n_ops {
        let op = match rng.below(20) {
            0..=8 => {
                let comp = *rng.pick(&[0u8, 0, 1, 1, 1, 2, 3, 4, 5, 6]);
                let mut data = gen_data(rng);
                if comp == 6 && data.len() % 2 == 0 { data.push(7); }   // ADPCM is lossy on even lengths; only its failure is of interest here
                Op::Add { name: if long && rng.chance(1, 2) { rng.below(npool as u64) as usize } else { focus(rng) }, data,
                          comp, enc: *rng.pick(&[0u8, 0, 0, 0, 1, 2]), replace: rng.chance(4, 5) }
            }
            9..=12 => Op::Remove(focus(rng)),
            13..=15 => Op::Rename(focus(rng), focus(rng)),
            16 => Op::Compact,
            17 => Op::Flush,
            _ => Op::Reopen,
        };
        ops.push(op);
    }
    Case { ver, listfile, attrs, init, ops }
}

pub fn describe(c: &Case, names: &[String]) -> String {
    let mut s = format!("V{} listfile={} attrs={} init=[", c.ver + 1, c.listfile, c.attrs);
    for (i, d, comp, enc) in &c.init { s += &format!("{}:{}b:c{}{} ", names[*i], d.len(), comp, if *enc { ":enc" } else { "" }); }
    s += "] ops=[";
    for op in &c.ops {
        s += &match op {
            Op::Add { name, data, comp, enc, replace } => format!("add({},{}b,c{},e{},{}) ", names[*name], data.len(), comp, enc, if *replace { "replace" } else { "noreplace" }),
            Op::Remove(n) => format!("remove({}) ", names[*n]),
            Op::Rename(a, b) => format!("rename({},{}) ", names[*a], names[*b]),
            Op::Compact => "compact ".into(), Op::Flush => "flush ".into(), Op::Reopen => "reopen ".into(),
        };
    }
    s + "]"
}

pub struct Step { pub op: String, pub ok: bool, pub err: String }

pub struct Outcome {
    pub failures: Vec<(String, String)>,
    pub steps: Vec<Step>,
    pub checks: u64,
    /// model request tokens / implementation answer tokens (only for histories the model covers)
    pub req: Vec<String>,
    pub resp: Vec<String>,
}

fn code(e: &str) -> &'static str {
    if e.starts_with("File already exists") { "exists" } else if e.starts_with("File not found") { "notfound" }
    else if e.starts_with("Archive capacity exceeded") { "full" } else if e.contains("Cannot compact") { "noname" }
    else if e.contains("No block table") { "notables" } else if e.starts_with("Compression error") { "comperr" } else { "err" }
}
fn listfile_hex(path: &Path) -> String {
    match Archive::open(path) { Ok(mut a) => match a.find_file("(listfile)") { Ok(Some(_)) => a.read_file("(listfile)").map(|d| hex(&d)).unwrap_or("unreadable".into()), _ => "none".into() }, Err(_) => "unreadable".into() }
}
fn clen(data: &[u8], comp: u8) -> String {
    if comp == 0 { return data.len().to_string(); }
    match wow_mpq::compress(data, flag(comp)) { Ok(c) => c.len().to_string(), Err(_) => "E".into() }
}

fn verify(path: &Path, map: &BTreeMap<String, Vec<u8>>, names: &[String], listfile: bool, when: &str, out: &mut Outcome) {
    out.checks += 1;
    let mut a = match Archive::open(path) { Ok(a) => a, Err(e) => { out.failures.push(("reopen-fails".into(), format!("{when}: Archive::open -> {e}"))); return; } };
    for n in names {
        let got = a.read_file(n);
        match (map.get(n), got) {
            (Some(w), Ok(g)) => if *w != g { out.failures.push(("content-differs-after-reopen".into(), format!("{when}: {n}: want {} bytes, got {} bytes{}", w.len(), g.len(), if w.len() == g.len() { " (different)" } else { "" }))); },
            (Some(w), Err(e)) => out.failures.push(("file-lost-after-reopen".into(), format!("{when}: {n} ({} bytes): {e}", w.len()))),
            (None, Ok(g)) => out.failures.push(("removed-file-still-readable".into(), format!("{when}: {n} reads {} bytes", g.len()))),
            (None, Err(_)) => {}
        }
    }
    if listfile {
        match a.list() {
            Ok(l) => {
                let mut got: Vec<String> = l.iter().map(|e| e.name.clone()).filter(|n| !n.starts_with('(')).collect(); got.sort(); got.dedup();
                let mut want: Vec<String> = map.keys().cloned().collect(); want.sort();
                if got != want {
                    let missing: Vec<&String> = want.iter().filter(|n| !got.contains(n)).collect();
                    let extra: Vec<&String> = got.iter().filter(|n| !want.contains(n)).collect();
                    out.failures.push((if !missing.is_empty() { "listing-misses-file" } else { "listing-has-removed-file" }.into(), format!("{when}: missing {:?} extra {:?}", missing, extra)));
                }
            }
            Err(e) => out.failures.push(("listing-fails-after-reopen".into(), format!("{when}: {e}"))),
        }
    }
}

/// Run one history on the real implementation. Called on a worker thread (an operation that never returns is a violation).
pub fn execute(c: &Case, names: &[String], dump: bool) -> Outcome {
    let mut out = Outcome { failures: vec![], steps: vec![], checks: 0, req: vec![], resp: vec![] };
    let dir = tempfile::tempdir().expect("tmpdir");
    let path = dir.path().join("m.mpq");
    let mut b = ArchiveBuilder::new().version(VERS[c.ver])
        .listfile_option(if c.listfile { ListfileOption::Generate } else { ListfileOption::None })
        .attributes_option(match c.attrs { 1 => AttributesOption::GenerateCrc32, 2 => AttributesOption::GenerateFull, _ => AttributesOption::None });
    let mut map: BTreeMap<String, Vec<u8>> = BTreeMap::new();
    for (i, d, comp, enc) in &c.init {
        b = b.add_file_data_with_options(d.clone(), &names[*i], flag(*comp), *enc, 0);
        map.insert(names[*i].clone(), d.clone());
    }
    if let Err(e) = b.build(&path) { out.failures.push(("initial-build-fails".into(), format!("{e}"))); return out; }
    verify(&path, &map, names, c.listfile, "initial", &mut out);
    if dump { out.req.push(crate::fsop::table_dump(&path)); out.req.push(listfile_hex(&path)); }
    let mut m = match MutableArchive::open(&path) { Ok(m) => m, Err(e) => { out.failures.push(("mutable-open-fails".into(), format!("{e}"))); return out; } };
    for (k, op) in c.ops.iter().enumerate() {
        let before = map.clone();
        let (txt, res): (String, Result<(), String>) = match op {
            Op::Add { name, data, comp, enc, replace } => {
                let n = &names[*name];
                let mut o = AddFileOptions::new().compression(method(*comp)).replace_existing(*replace);
                if *enc == 1 { o = o.encrypt(); } else if *enc == 2 { o = o.fix_key(); }
                let existed = map.contains_key(n);
                if dump { out.req.push(format!("A:{}:{}:{}:{}:{}", hex(n.as_bytes()), data.len(), clen(data, *comp), enc, *replace as u8)); }
                let r = m.add_file_data(data, n, o).map_err(|e| e.to_string());
                if dump { out.resp.push(r.as_ref().map(|_| "ok").unwrap_or_else(|e| code(e)).to_string()); }
                if r.is_ok() {
                    if existed && !*replace { out.failures.push(("add-noreplace-overwrites".into(), format!("step {k}: add {n} without replace on an existing name returned Ok"))); }
                    map.insert(n.clone(), data.clone());
                }
                (format!("add {n}"), r)
            }
            Op::Remove(i) => {
                let n = &names[*i];
                if dump { out.req.push(format!("R:{}", hex(n.as_bytes()))); }
                let r = m.remove_file(n).map_err(|e| e.to_string());
                if dump { out.resp.push(r.as_ref().map(|_| "ok").unwrap_or_else(|e| code(e)).to_string()); }
                if r.is_ok() { if map.remove(n).is_none() { out.failures.push(("remove-of-absent-name-succeeds".into(), format!("step {k}: remove {n}"))); } }
                (format!("remove {n}"), r)
            }
            Op::Rename(a, bb) => {
                let (na, nb) = (&names[*a], &names[*bb]);
                if dump { out.req.push(format!("M:{}:{}:{}", hex(na.as_bytes()), hex(nb.as_bytes()), map.get(na).map(|d| clen(d, 1)).unwrap_or("0".into()))); }
                let r = m.rename_file(na, nb).map_err(|e| e.to_string());
                if dump { out.resp.push(r.as_ref().map(|_| "ok").unwrap_or_else(|e| code(e)).to_string()); }
                if r.is_ok() {
                    if map.contains_key(nb) { out.failures.push(("rename-onto-existing-name-succeeds".into(), format!("step {k}: rename {na} -> {nb}"))); }
                    match map.remove(na) { Some(d) => { map.insert(nb.clone(), d); } None => out.failures.push(("rename-of-absent-name-succeeds".into(), format!("step {k}: rename {na} -> {nb}"))) }
                }
                (format!("rename {na} {nb}"), r)
            }
            Op::Compact => {
                let r = m.compact().map_err(|e| e.to_string());
                if dump {
                    match &r { Ok(()) => { out.req.push(format!("C:{}:{}", crate::fsop::table_dump(&path), listfile_hex(&path))); out.resp.push("ok keys-match".into()); }
                               Err(e) => { out.req.push("C:-:-".into()); out.resp.push(code(e).to_string()); } }
                }
                ("compact".into(), r)
            }
            Op::Flush => {
                let r = m.flush().map_err(|e| e.to_string());
                if dump { out.req.push("F".into()); out.resp.push(match &r { Ok(()) => format!("ok {}", crate::fsop::table_dump(&path)), Err(e) => code(e).to_string() }); }
                ("flush".into(), r)
            }
            Op::Reopen => {
                drop(m);
                verify(&path, &map, names, c.listfile, &format!("after step {k} (close+reopen)"), &mut out);
                if dump { out.req.push("O".into()); out.resp.push(crate::fsop::table_dump(&path)); }
                m = match MutableArchive::open(&path) { Ok(m) => m, Err(e) => { out.failures.push(("mutable-open-fails".into(), format!("after step {k}: {e}"))); return out; } };
                ("reopen".into(), Ok(()))
            }
        };
        if res.is_err() { map = before; }
        // in-session view: a name is findable exactly when the map holds it
        if !matches!(op, Op::Reopen) {
            for n in names.iter().take(10) {
                let f = m.find_file(n).map(|x| x.is_some()).unwrap_or(false);
                if f != map.contains_key(n) { out.failures.push(("in-session-find-disagrees".into(), format!("step {k} ({txt}): find_file({n}) = {f}, map has it: {}", map.contains_key(n)))); break; }
            }
        }
        out.steps.push(Step { op: txt, ok: res.is_ok(), err: res.err().unwrap_or_default() });
        if !out.failures.is_empty() { break; }
    }
    drop(m);
    verify(&path, &map, names, c.listfile, "final (close+reopen)", &mut out);
    if dump { out.req.push("O".into()); out.resp.push(crate::fsop::table_dump(&path)); }
    out
}

pub fn run_with_timeout(c: &Case, names: &[String], dump: bool) -> Option<Outcome> {
    let (tx, rx) = mpsc::channel();
    let (c2, n2) = (c.clone(), names.to_vec());
    std::thread::spawn(move || { let r = std::panic::catch_unwind(|| execute(&c2, &n2, dump)); let _ = tx.send(r); });
    match rx.recv_timeout(Duration::from_secs(30)) {
        Ok(Ok(o)) => Some(o),
        Ok(Err(_)) => Some(Outcome { failures: vec![("operation-panics".into(), "a panic escaped the modification API".into())], steps: vec![], checks: 0, req: vec![], resp: vec![] }),
        Err(_) => None,
    }
}

pub fn run(ctx: &mut Ctx) {
    let names = pool();
    let n = if ctx.thorough { 1500 } else { 160 };
    let mut hung = 0;
    for k in 0..n {
        let long = k % 5 == 4;
        let c = gen_case(&mut ctx.rng, names.len(), long, k);
        let desc = describe(&c, &names);
        ctx.out.stat(&format!("c06.version.V{}", c.ver + 1));
        ctx.out.stat(if long { "c06.history.long" } else { "c06.history.short" });
        ctx.out.stat(&format!("c06.listfile.{}", c.listfile));
        ctx.out.stat(&format!("c06.attrs.{}", c.attrs));
        let modelled = c.attrs == 0;
        match run_with_timeout(&c, &names, modelled) {
            None => { hung += 1; ctx.out.oracle(false, "operation-does-not-terminate", &desc); if hung >= 3 { break; } }
            Some(o) => {
                for s in &o.steps {
                    ctx.out.stat(&format!("c06.op.{}.{}", s.op.split(' ').next().unwrap_or("?"), if s.ok { "ok" } else { "err" }));
                    if !s.ok { let kind: String = s.err.chars().filter(|c| !c.is_ascii_digit()).take(60).collect(); ctx.out.stat(&format!("c06.err.{}.{kind}", s.op.split(' ').next().unwrap_or("?"))); }
                }
                ctx.out.stat_n("c06.reopen_checks", o.checks);
                if modelled && !o.req.is_empty() && o.failures.iter().all(|f| f.0 != "operation-panics") {
                    ctx.out.case(&format!("c06run {}", o.req.join(" ")), &o.resp.join(" "));
                    ctx.out.stat("c06.modelled_histories");
                }
                if o.failures.is_empty() { ctx.out.oracle(true, "", ""); ctx.out.nontrivial(desc.as_bytes()); }
                for (tag, what) in &o.failures { ctx.out.oracle(false, tag, &format!("{what} :: {desc}")); }
            }
        }
    }
}
