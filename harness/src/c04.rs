//! C04 — hashing / encryption: implementation answers + property oracle.
use crate::common::*;
use wow_mpq::crypto::{decrypt_block, decrypt_dword, encrypt_block, het_hash, jenkins_hash, hash_string};
use wow_mpq::{ArchiveBuilder, decrypt_file_data};

fn words(b: &[u8]) -> Vec<u32> {
    b.chunks_exact(4).map(|c| u32::from_le_bytes([c[0], c[1], c[2], c[3]])).collect()
}
fn unwords(w: &[u32]) -> Vec<u8> {
    w.iter().flat_map(|x| x.to_le_bytes()).collect()
}

const TYPES: [u32; 5] = [0x000, 0x100, 0x200, 0x300, 0x400];

fn spellings(rng: &mut Rng, s: &str) -> Vec<String> {
    let flip = |c: char, r: &mut Rng| -> char {
        match c {
            'a'..='z' if r.chance(1, 2) => c.to_ascii_uppercase(),
            'A'..='Z' if r.chance(1, 2) => c.to_ascii_lowercase(),
            '/' if r.chance(1, 2) => '\\',
            '\\' if r.chance(1, 2) => '/',
            _ => c,
        }
    };
    let mut v = vec![s.to_ascii_uppercase().replace('/', "\\"), s.to_ascii_lowercase().replace('\\', "/")];
    for _ in 0..2 {
        v.push(s.chars().map(|c| flip(c, rng)).collect());
    }
    v
}

fn hash_case(ctx: &mut Ctx, s: &str) {
    let b = s.as_bytes();
    for t in TYPES {
        let h = hash_string(s, t);
        ctx.out.case(&format!("hash {} {}", t, hex(b)), &format!("{:08x}", h));
        ctx.out.spec_case(&format!("shash {} {}", t, hex(b)), &format!("{:08x}", h));
    }
    ctx.out.stat(&format!("hash.len.{}", b.len().min(20)));
    if b.iter().any(|x| *x >= 0x80) {
        ctx.out.stat("hash.nonascii");
    }
}

fn hash_oracle(ctx: &mut Ctx, s: &str) {
    let mut rng = ctx.rng.clone();
    for v in spellings(&mut rng, s) {
        for t in TYPES {
            let ok = hash_string(&v, t) == hash_string(s, t);
            ctx.out.oracle(ok, "hash-spelling", &format!("hash_string {:?} vs {:?} type {:#x}", s, v, t));
        }
        let ok = jenkins_hash(&v) == jenkins_hash(s);
        ctx.out.oracle(ok, "joaat-spelling", &format!("jenkins_hash {:?} vs {:?}", s, v));
        for bits in [8u32, 16, 48, 64] {
            let ok = het_hash(&v, bits) == het_hash(s, bits);
            ctx.out.oracle(ok, "het-spelling", &format!("het_hash {:?} vs {:?} bits {}", s, v, bits));
        }
        if v != s {
            ctx.out.stat("spelling.variant_differs");
            ctx.out.nontrivial(v.as_bytes());
        }
    }
    ctx.rng.next();
}

fn jenkins_case(ctx: &mut Ctx, s: &str) {
    let b = s.as_bytes();
    ctx.out.case(&format!("joaat {}", hex(b)), &format!("{:016x}", jenkins_hash(s)));
    for bits in [8u32, 9, 16, 31, 32, 33, 48, 63, 64] {
        let (h, n1) = het_hash(s, bits);
        ctx.out.case(&format!("hl2 {} {}", bits, hex(b)), &format!("{:016x} {:02x}", h, n1));
        if bits == 64 {
            ctx.out.spec_case(&format!("shl2 {}", hex(b)), &format!("{:016x}", h));
        }
    }
    ctx.out.stat(&format!("jenkins.tail.{}", if b.is_empty() { 0 } else { (b.len() - 1) % 12 + 1 }));
    ctx.out.stat(&format!("jenkins.blocks.{}", if b.is_empty() { 0 } else { ((b.len() - 1) / 12).min(3) }));
}

fn crypt_case(ctx: &mut Ctx, key: u32, buf: &[u8]) {
    let builder = ArchiveBuilder::new();
    // block cipher on whole dwords
    let whole = &buf[..buf.len() / 4 * 4];
    let mut w = words(whole);
    encrypt_block(&mut w, key);
    let enc = unwords(&w);
    ctx.out.case(&format!("encblk {} {}", key, hex(whole)), &hex(&enc));
    if key != 0 {
        ctx.out.spec_case(&format!("sencblk {} {}", key, hex(whole)), &hex(&enc));
    }
    let mut w2 = words(whole);
    decrypt_block(&mut w2, key);
    ctx.out.case(&format!("decblk {} {}", key, hex(whole)), &hex(&unwords(&w2)));
    decrypt_block(&mut w, key);
    ctx.out.oracle(unwords(&w) == whole, "block-roundtrip", &format!("key={} data={}", key, hex(whole)));
    // byte wrappers with tail handling
    let mut e = buf.to_vec();
    builder.encrypt_data(&mut e, key);
    ctx.out.case(&format!("encbytes {} {}", key, hex(buf)), &hex(&e));
    let mut d = buf.to_vec();
    decrypt_file_data(&mut d, key);
    ctx.out.case(&format!("decbytes {} {}", key, hex(buf)), &hex(&d));
    let mut back = e.clone();
    decrypt_file_data(&mut back, key);
    ctx.out.oracle(back == buf, "bytes-roundtrip", &format!("key={} data={}", key, hex(buf)));
    // the same through slices that start at every address modulo 4 (a record behind a one-byte prefix, a payload behind an
    // odd-length header): the result depends on the bytes and the key, never on where the slice lies in memory
    for lead in 1..4usize {
        let mut frame = vec![0xA5u8; lead]; frame.extend_from_slice(&e); frame.extend_from_slice(&[0x5A; 3]);
        decrypt_file_data(&mut frame[lead..lead + e.len()], key);
        ctx.out.oracle(frame[lead..lead + e.len()] == *buf && frame[..lead].iter().all(|b| *b == 0xA5) && frame[lead + e.len()..].iter().all(|b| *b == 0x5A),
            "bytes-roundtrip-depends-on-slice-position", &format!("key={} data={} slice starts {} byte(s) into its buffer", key, hex(buf), lead));
        let mut f2 = vec![0xA5u8; lead]; f2.extend_from_slice(buf); f2.extend_from_slice(&[0x5A; 3]);
        builder.encrypt_data(&mut f2[lead..lead + buf.len()], key);
        ctx.out.oracle(f2[lead..lead + buf.len()] == e[..], "bytes-roundtrip-depends-on-slice-position", &format!("encrypt: key={} data={} slice starts {} byte(s) into its buffer", key, hex(buf), lead));
    }
    if buf.len() >= 4 {
        let v = u32::from_le_bytes([buf[0], buf[1], buf[2], buf[3]]);
        ctx.out.case(&format!("decdword {} {}", key, v), &format!("{:08x}", decrypt_dword(v, key)));
    }
    ctx.out.stat(&format!("crypt.len_mod4.{}", buf.len() % 4));
    if key == 0 {
        ctx.out.stat("crypt.key0");
    }
    if buf.len() % 4 != 0 && key.wrapping_add((buf.len() / 4) as u32) == 0 {
        ctx.out.stat("crypt.tailkey0");
    }
    if key != 0 && !buf.is_empty() {
        let mut c = key.to_le_bytes().to_vec();
        c.extend_from_slice(buf);
        ctx.out.nontrivial(&c);
    }
}

pub fn run(ctx: &mut Ctx) {
    // the compiled tables against the reference tables, entry by entry (I-oracle with a concrete index)
    for (i, v) in wow_mpq::crypto::ENCRYPTION_TABLE.iter().enumerate() {
        ctx.out.spec_case(&format!("stable crypt {}", i), &format!("{}", v));
    }
    for (i, v) in wow_mpq::crypto::ASCII_TO_UPPER.iter().enumerate() {
        ctx.out.spec_case(&format!("stable upper {}", i), &format!("{}", v));
    }
    for (i, v) in wow_mpq::crypto::ASCII_TO_LOWER.iter().enumerate() {
        ctx.out.spec_case(&format!("stable lower {}", i), &format!("{}", v));
    }
    // ---- corpus first
    if let Ok(text) = std::fs::read_to_string(ctx.corpus.join("C04/names.txt")) {
        for l in text.lines() {
            hash_case(ctx, l);
            hash_oracle(ctx, l);
            jenkins_case(ctx, l);
        }
    }
    // ---- exhaustive short strings (valid UTF-8 only: the API takes &str)
    let mut one: Vec<String> = (0u32..128).map(|c| char::from_u32(c).unwrap().to_string()).collect();
    // every 2-byte UTF-8 scalar (U+0080..U+07FF): reaches every byte 0xC2..0xDF, 0x80..0xBF
    let two: Vec<String> = (0x80u32..0x800).filter_map(char::from_u32).map(|c| c.to_string()).collect();
    one.push(String::new());
    for s in one.iter().chain(two.iter()) {
        hash_case(ctx, s);
    }
    let stride = if ctx.thorough { 1 } else { 13 };
    let mut k = (ctx.seed % stride) as usize;
    for a in 0u8..128 {
        for b in 0u8..128 {
            k += 1;
            if k % stride as usize != 0 {
                continue;
            }
            let s = String::from_utf8(vec![a, b]).unwrap();
            hash_case(ctx, &s);
        }
    }
    // 3-byte and 4-byte UTF-8 to reach bytes 0xE0..0xF4
    for cp in [0x800u32, 0xFFFF, 0x10000, 0x10FFFF, 0x20AC, 0xD7FF, 0xE000, 0x3FFFF, 0x40000, 0xFFFFF, 0x100000] {
        if let Some(c) = char::from_u32(cp) {
            hash_case(ctx, &c.to_string());
            jenkins_case(ctx, &c.to_string());
        }
    }
    // ---- random longer names with structure (paths, mixed case, both slashes)
    let n_names = if ctx.thorough { 100_000 } else { 1500 };
    let alphabet: Vec<char> =
        "abcdefghijklmnopqrstuvwxyzABCDEFGHIJKLMNOPQRSTUVWXYZ0123456789/\\._-() @[`{~\u{e9}\u{4e16}".chars().collect();
    for i in 0..n_names {
        let len = match ctx.rng.below(10) {
            0 => ctx.rng.range(0, 3),
            1..=6 => ctx.rng.range(3, 30),
            7 | 8 => ctx.rng.range(30, 80),
            _ => ctx.rng.range(80, 300),
        };
        let s: String = (0..len).map(|_| *ctx.rng.pick(&alphabet)).collect();
        if i % 4 == 0 || ctx.thorough {
            hash_case(ctx, &s);
        }
        hash_oracle(ctx, &s);
        jenkins_case(ctx, &s);
    }
    // every length 0..40 for Jenkins tail coverage
    for len in 0..40 {
        let s: String = (0..len).map(|i| (b'a' + (i % 26) as u8) as char).collect();
        jenkins_case(ctx, &s);
    }
    // ---- cipher: keys x buffers, exhaustive small lengths 0..17
    let mut keys: Vec<u32> = vec![0, 1, 0xFF, 0x100, 0x8000_0000, 0xFFFF_FFFF, 0xFFFF_FFFE, 0xFFFF_FFFD, 0xC1EB1CEF];
    for _ in 0..(if ctx.thorough { 40 } else { 6 }) {
        keys.push(ctx.rng.u32());
    }
    for &key in &keys {
        for len in 0..=17usize {
            let reps = if ctx.thorough { 6 } else { 2 };
            for r in 0..reps {
                let buf = match r {
                    0 => vec![0u8; len],
                    1 => ctx.rng.bytes(len),
                    2 => vec![0xFFu8; len],
                    _ => ctx.rng.bytes(len),
                };
                crypt_case(ctx, key, &buf);
            }
        }
    }
    // tail key wraps to 0: key + len/4 == 0 (mod 2^32)
    for chunks in 1u32..5 {
        for rem in 1..4usize {
            let buf = ctx.rng.bytes(chunks as usize * 4 + rem);
            crypt_case(ctx, 0u32.wrapping_sub(chunks), &buf);
        }
    }
    let n_big = if ctx.thorough { 400 } else { 25 };
    for _ in 0..n_big {
        let len = ctx.rng.range(18, if ctx.thorough { 70_000 } else { 5000 }) as usize;
        let key = ctx.rng.u32();
        let buf = ctx.rng.bytes(len);
        crypt_case(ctx, key, &buf);
    }
    // the extended tables' decryption wrapper (tables/common.rs, reached through HetTable::read) inverts the builder's
    // encryption for every body length, tail bytes included: every slot count x index width
    {
        let key = hash_string("(hash table)", wow_mpq::crypto::hash_type::FILE_KEY);
        for slots in 1..=40usize { for index_bits in 1..=8usize {
            let index_bytes = (slots * index_bits).div_ceil(8);
            let hashes: Vec<u8> = (0..slots).map(|i| (i as u8).wrapping_mul(37) | 0x80).collect();
            let indices: Vec<u8> = (0..index_bytes).map(|i| (i as u8).wrapping_mul(101).wrapping_add(7)).collect();
            let mut body = Vec::new();
            for v in [(32 + slots + index_bytes) as u32, slots as u32, slots as u32, 8, (slots * index_bits) as u32, 0, index_bits as u32, index_bytes as u32] { body.extend_from_slice(&v.to_le_bytes()); }
            body.extend_from_slice(&hashes); body.extend_from_slice(&indices);
            let blen = body.len();
            let mut stored = Vec::new();
            stored.extend_from_slice(&0x1A54_4548u32.to_le_bytes()); stored.extend_from_slice(&1u32.to_le_bytes()); stored.extend_from_slice(&(blen as u32).to_le_bytes());
            ArchiveBuilder::new().encrypt_data(&mut body, key);
            stored.extend_from_slice(&body);
            let n = stored.len() as u64;
            let r = std::panic::catch_unwind(move || wow_mpq::HetTable::read(&mut std::io::Cursor::new(stored), 0, n, key));
            let ok = matches!(&r, Ok(Ok(t)) if t.hash_table == hashes && t.file_indices == indices);
            ctx.out.oracle(ok, "table-decryption-does-not-invert-builder-encryption", &format!("HET table with {slots} slots, {index_bits}-bit indices: encrypted body of {blen} bytes (length % 4 = {})", blen % 4));
            ctx.out.stat(&format!("c04.table_wrapper.len_mod4_{}", blen % 4));
        } }
    }
}
