//! C18 — WDT / WDL write→parse, second write identical, tile ↔ world coordinates, version conversion.
use crate::common::*;
use wow_wdt::{tile_to_world, world_to_tile};

fn f32_validation(ctx: &mut Ctx) {
    // SoftF32 (Lean) against hardware binary32, bit-exact, on operands in and around the coordinate domain
    let n = if ctx.thorough { 100_000 } else { 6000 };
    for i in 0..n {
        let (a, b) = match i % 4 {
            0 => (f32::from_bits(ctx.rng.u32()), f32::from_bits(ctx.rng.u32())),
            1 => ((ctx.rng.below(70) as f32) * 533.333_3, 17066.666),
            2 => (ctx.rng.below(40000) as f32 / 3.0 - 6000.0, 533.333_3),
            _ => (f32::from_bits(0x3f80_0000 + (ctx.rng.u32() & 0x03ff_ffff)), f32::from_bits(0x3f00_0000 + (ctx.rng.u32() & 0x03ff_ffff))),
        };
        if !a.is_finite() || !b.is_finite() { continue; }
        for (op, r) in [("mul", a * b), ("div", a / b), ("add", a + b), ("sub", a - b)] {
            if op == "div" && b == 0.0 { continue; }
            // SoftF32 supports zero and normal results only
            let exact_zero = r == 0.0 && (a == 0.0 || (b == 0.0 && op != "div") || op == "add" || op == "sub");
            let ok_dom = exact_zero || r.is_normal();
            let ans = if ok_dom { r.to_bits().to_string() } else { continue };
            ctx.out.case(&format!("f32 {} {} {}", op, a.to_bits(), b.to_bits()), &ans);
            ctx.out.stat(&format!("f32.{op}"));
        }
        let k = ctx.rng.u32() >> (ctx.rng.below(32) as u32);
        ctx.out.case(&format!("f32ofnat {}", k), &(k as f32).to_bits().to_string());
        ctx.out.case(&format!("f32tou32 {}", a.to_bits()), &(a as u32).to_string());
    }
}

fn coords(ctx: &mut Ctx) {
    for x in 0u32..64 {
        for y in 0u32..64 {
            let (wx, wy) = tile_to_world(x, y);
            ctx.out.case(&format!("t2w {} {}", x, y), &format!("{} {}", wx.to_bits(), wy.to_bits()));
            let (bx, by) = world_to_tile(wx, wy);
            ctx.out.case(&format!("w2t {} {}", wx.to_bits(), wy.to_bits()), &format!("{} {}", bx, by));
            ctx.out.oracle((bx, by) == (x, y), "tile-world-tile", &format!("tile ({x},{y}) -> world ({wx},{wy}) -> tile ({bx},{by})"));
            if (bx, by) == (x, y) { ctx.out.nontrivial(&[x as u8, y as u8]); }
            // a point well inside the tile must map to the tile as well
            let (cx, cy) = (wx - 266.0, wy - 266.0);
            let (ix, iy) = world_to_tile(cx, cy);
            ctx.out.case(&format!("w2t {} {}", cx.to_bits(), cy.to_bits()), &format!("{} {}", ix, iy));
            ctx.out.oracle((ix, iy) == (x, y), "tile-centre", &format!("centre of tile ({x},{y}) -> ({ix},{iy})"));
        }
    }
    ctx.out.stat_n("coords.tiles", 4096);
    let n = if ctx.thorough { 50_000 } else { 3000 };
    for _ in 0..n {
        let wx = (ctx.rng.below(4_000_000) as f32) / 100.0 - 20000.0;
        let wy = (ctx.rng.below(4_000_000) as f32) / 100.0 - 20000.0;
        let (tx, ty) = world_to_tile(wx, wy);
        ctx.out.case(&format!("w2t {} {}", wx.to_bits(), wy.to_bits()), &format!("{} {}", tx, ty));
    }
}

pub fn run(ctx: &mut Ctx) {
    f32_validation(ctx);
    coords(ctx);
    crate::c18_wdt::run(ctx);
    crate::c18_wdl::run(ctx);
}
