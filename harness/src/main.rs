//! wvh — harness tying the Lean model to /repo's current crates.
//!   wvh dump-consts                      -> constants of the compiled crates (JSON-ish lines)
//!   wvh run <Cxx> --seed S --tier T --out DIR [--corpus DIR]
mod common;
mod consts;
mod fsop;
mod ffi;
mod consts_more;
mod c01;
mod c06;
mod c07;
mod c03;
mod c05;
mod c04;
mod c08;
mod c09;
mod c10;
mod c13;
mod c14;
mod c15;
mod c16;
mod c17;
mod c18;
mod c19;
mod c19mt;
mod c18_wdt;
mod c18_wdl;

use common::*;

#[global_allocator]
static ALLOC: c05::Counting = c05::Counting;
use std::path::PathBuf;

fn main() {
    let args: Vec<String> = std::env::args().collect();
    // panics inside the implementation are caught per case and reported through the oracle; keep stderr quiet
    std::panic::set_hook(Box::new(|info| {
        if std::env::var("WVH_VERBOSE_PANIC").is_ok() {
            eprintln!("{info}");
        }
    }));
    if args.len() < 2 {
        eprintln!("usage: wvh dump-consts | run <Cxx> --seed S --tier quick|thorough --out DIR");
        std::process::exit(2);
    }
    match args[1].as_str() {
        "dump-consts" => consts::dump(),
        "fsop" => std::process::exit(fsop::main(&args[2..])),
        "c05child" => std::process::exit(c05::child(&args[2..])),
        "run" => {
            let prop = args.get(2).cloned().unwrap_or_default();
            let mut seed = 1u64;
            let mut thorough = false;
            let mut out = PathBuf::from("/tmp/wvh-out");
            let mut corpus = PathBuf::from("/verif/corpus");
            let mut i = 3;
            while i < args.len() {
                match args[i].as_str() {
                    "--seed" => {
                        seed = args[i + 1].parse().unwrap_or(1);
                        i += 1
                    }
                    "--tier" => {
                        thorough = args[i + 1] == "thorough";
                        i += 1
                    }
                    "--out" => {
                        out = PathBuf::from(&args[i + 1]);
                        i += 1
                    }
                    "--corpus" => {
                        corpus = PathBuf::from(&args[i + 1]);
                        i += 1
                    }
                    _ => {}
                }
                i += 1;
            }
            let mut ctx = Ctx { seed, thorough, out: Out::new(&out), rng: Rng::new(seed), corpus };
            match prop.as_str() {
                "C01" => c01::run(&mut ctx),
                "C03" => c03::run(&mut ctx),
                "C05" => c05::run(&mut ctx),
                "C06" => c06::run(&mut ctx),
                "C07" => c07::run(&mut ctx),
                "C04" => c04::run(&mut ctx),
                "C08" => c08::run(&mut ctx),
                "C09" => c09::run(&mut ctx),
                "C10" => c10::run(&mut ctx),
                "C13" => c13::run(&mut ctx),
                "C14" => c14::run(&mut ctx),
                "C15" => c15::run(&mut ctx),
                "C16" => c16::run(&mut ctx),
                "C17" => c17::run(&mut ctx),
                "C18" => c18::run(&mut ctx),
                "C19" => c19::run(&mut ctx),
                "C19MT" => c19mt::run(&mut ctx),
                _ => {
                    eprintln!("unknown property {prop}");
                    std::process::exit(2);
                }
            }
            ctx.out.finish();
        }
        _ => {
            eprintln!("unknown subcommand");
            std::process::exit(2);
        }
    }
}
