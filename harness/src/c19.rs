//! C19 — the StormLib-style C API: handle safety and agreement with the Rust API on call histories.
use crate::common::*;
use crate::ffi::storm::*;
use std::ffi::{CString, c_void};
use wow_mpq::{Archive, ArchiveBuilder, ListfileOption};

struct World { paths: Vec<std::path::PathBuf>, names: Vec<String>, data: Vec<Vec<Option<Vec<u8>>>>, _dir: tempfile::TempDir }

pub fn build_world(rng: &mut Rng) -> (Vec<std::path::PathBuf>, Vec<String>, Vec<Vec<Option<Vec<u8>>>>, tempfile::TempDir) {
    let dir = tempfile::tempdir().expect("tmp");
    let names: Vec<String> = vec!["a.txt".into(), "Dir\\b.dat".into(), "Dir\\Sub\\c.bin".into(), "empty.x".into(), "big.bin".into(), "absent.txt".into()];
    let mut paths = vec![]; let mut data = vec![];
    for a in 0..2 {
        let mut b = ArchiveBuilder::new().listfile_option(ListfileOption::Generate);
        let mut d = vec![];
        for (i, n) in names.iter().enumerate() {
            let there = i != 5 && !(a == 1 && i == 1);
            if there {
                let len = match i { 0 => 11, 1 => 300, 2 => 4097, 3 => 0, _ => 20000 };
                let bytes: Vec<u8> = (0..len).map(|j| ((j * 7 + i + a) % 251) as u8 / if i == 4 { 16 } else { 1 }).collect();
                let _ = rng.next();
                b = b.add_file_data(bytes.clone(), n);
                d.push(Some(bytes));
            } else { d.push(None); }
        }
        let p = dir.path().join(format!("ffi{a}.mpq"));
        b.build(&p).expect("build ffi world");
        paths.push(p); data.push(d);
    }
    (paths, names, data, dir)
}

fn h(n: usize) -> HANDLE { n as HANDLE }
fn err_name() -> &'static str { match SFileGetLastError() { 6 => "invalid", 87 => "param", 2 => "notfound", 18 => "nomore", 0 => "ok", _ => "other" } }

const CANARY: u8 = 0xC7;

pub fn run(ctx: &mut Ctx) {
    let mut rng = ctx.rng.clone();
    let (paths, names, data, dir) = build_world(&mut rng);
    ctx.rng = rng;
    let w = World { paths, names, data, _dir: dir };
    // the Rust API's view, for agreement
    let mut rust: Vec<Archive> = w.paths.iter().map(|p| Archive::open(p).expect("open")).collect();
    let mut next_id: usize = 1;   // mirrors NEXT_HANDLE (every successful allocation increments it)
    let n_hist = if ctx.thorough { 1500 } else { 150 };
    for hi in 0..n_hist {
        ctx.out.case(&format!("c19reset {}", next_id), "ok");
        let mut archs: Vec<(usize, usize)> = vec![];          // (handle, world index) — live and closed alike
        let mut files: Vec<(usize, usize, usize, usize)> = vec![]; // (handle, arch handle, world idx, name idx)
        let mut finds: Vec<usize> = vec![];
        let mut live_arch: Vec<usize> = vec![];
        let mut pos: std::collections::HashMap<usize, usize> = Default::default();
        let steps = ctx.rng.range(5, 40);
        let mut trace = String::new();
        for _ in 0..steps {
            let pick_arch = |rng: &mut Rng, archs: &Vec<(usize, usize)>| -> usize { match rng.below(10) { 0 => 0, 1 => rng.range(1, 50) as usize + next_id, 2 => next_id.saturating_sub(1), _ => if archs.is_empty() { 7 } else { rng.pick(archs).0 } } };
            let pick_file = |rng: &mut Rng, files: &Vec<(usize, usize, usize, usize)>, archs: &Vec<(usize, usize)>| -> usize { match rng.below(10) { 0 => 0, 1 => rng.range(1, 50) as usize + next_id, 2 => if archs.is_empty() { 3 } else { rng.pick(archs).0 }, _ => if files.is_empty() { 9 } else { rng.pick(files).0 } } };
            let op = ctx.rng.below(14);
            let (req, ans): (String, String) = match op {
                0 | 1 => { // open archive
                    let wi = ctx.rng.below(2) as usize;
                    let cp = CString::new(w.paths[wi].to_str().unwrap_or("")).unwrap();
                    let mut out: HANDLE = std::ptr::null_mut();
                    let ok = unsafe { SFileOpenArchive(cp.as_ptr(), 0, 0, &mut out) };
                    if ok { archs.push((out as usize, wi)); live_arch.push(out as usize); next_id = out as usize + 1; }
                    ("c19 openarch".into(), if ok { format!("h:{}", out as usize) } else { err_name().into() })
                }
                2 => { let a = pick_arch(&mut ctx.rng, &archs); let ok = SFileCloseArchive(h(a)); if ok { live_arch.retain(|x| *x != a); }
                    (format!("c19 closearch {a}"), if ok { "ok".into() } else { err_name().into() }) }
                3 | 4 | 5 => { // open file
                    let a = pick_arch(&mut ctx.rng, &archs); let ni = ctx.rng.below(w.names.len() as u64) as usize;
                    let wi = archs.iter().find(|x| x.0 == a).map(|x| x.1);
                    let name = match ctx.rng.below(3) { 0 => w.names[ni].to_uppercase(), 1 => w.names[ni].replace('\\', "/"), _ => w.names[ni].clone() };
                    let cn = CString::new(name).unwrap();
                    let mut out: HANDLE = std::ptr::null_mut();
                    let ok = unsafe { SFileOpenFileEx(h(a), cn.as_ptr(), 0, &mut out) };
                    let len = wi.and_then(|wi| w.data[wi][ni].as_ref().map(|d| d.len()));
                    if ok { files.push((out as usize, a, wi.unwrap_or(0), ni)); pos.insert(out as usize, 0); next_id = out as usize + 1; }
                    (format!("c19 openfile {a} {}", len.map(|l| l.to_string()).unwrap_or("-".into())), if ok { format!("h:{}", out as usize) } else { err_name().into() })
                }
                6 => { let f = pick_file(&mut ctx.rng, &files, &archs); let ok = SFileCloseFile(h(f)); (format!("c19 closefile {f}"), if ok { "ok".into() } else { err_name().into() }) }
                7 | 8 | 9 => { // read with canaries on both sides of the caller's buffer
                    let f = pick_file(&mut ctx.rng, &files, &archs);
                    let want = *ctx.rng.pick(&[0u32, 1, 2, 10, 11, 12, 300, 4096, 4097, 30000]);
                    let cap = (want as usize).min(40000);
                    let mut buf = vec![CANARY; cap + 32];
                    let mut got: u32 = 0xDEAD;
                    let ok = unsafe { SFileReadFile(h(f), buf[16..].as_mut_ptr() as *mut c_void, want, &mut got, std::ptr::null_mut()) };
                    let canaries_ok = buf[..16].iter().all(|b| *b == CANARY) && buf[16 + (if ok { got as usize } else { 0 })..].iter().all(|b| *b == CANARY);
                    ctx.out.oracle(canaries_ok, "ffi-wrote-outside-callers-buffer", &format!("{trace} read {f} want={want}"));
                    if ok { if let Some(fe) = files.iter().find(|x| x.0 == f) {
                        let p0 = *pos.get(&f).unwrap_or(&0);
                        let d = w.data[fe.2][fe.3].as_ref();
                        let good = d.map(|d| got as usize <= want as usize && p0 + got as usize <= d.len() && buf[16..16 + got as usize] == d[p0..p0 + got as usize]).unwrap_or(false);
                        ctx.out.oracle(good, "ffi-read-differs-from-rust-api", &format!("{trace} read {f} want={want} got={got} at {p0}"));
                        pos.insert(f, p0 + got as usize);
                        if got > 0 { ctx.out.nontrivial(format!("{hi}{trace}").as_bytes()); }
                    } }
                    (format!("c19 read {f} {want}"), if ok { format!("n:{got}") } else { err_name().into() })
                }
                10 => { // seek
                    let f = pick_file(&mut ctx.rng, &files, &archs);
                    let lo: i32 = *ctx.rng.pick(&[0, 1, 5, 11, 12, 300, -1, -5, -300, 4097, 100000, i32::MAX, i32::MIN]);
                    let use_hi = ctx.rng.chance(1, 4);
                    let mut hi32: i32 = *ctx.rng.pick(&[0, 0, -1, 1, i32::MAX, i32::MIN]);
                    let method = *ctx.rng.pick(&[0u32, 1, 2, 2, 1, 3]);
                    let off: i64 = if use_hi { (lo as i64) | ((hi32 as i64) << 32) } else { lo as i64 };
                    let r = unsafe { SFileSetFilePointer(h(f), lo, if use_hi { &mut hi32 } else { std::ptr::null_mut() }, method) };
                    let ok = !(r == 0xFFFF_FFFF && SFileGetLastError() != 0);
                    if ok { pos.insert(f, r as usize); }
                    (format!("c19 seek {f} {off} {method}"), if ok { format!("n:{r}") } else { err_name().into() })
                }
                11 => { let f = pick_file(&mut ctx.rng, &files, &archs); let mut hi32 = 7u32; let r = unsafe { SFileGetFileSize(h(f), &mut hi32) };
                    let ok = !(r == 0xFFFF_FFFF && SFileGetLastError() != 0);
                    if ok { if let Some(fe) = files.iter().find(|x| x.0 == f) {
                        let want = rust[fe.2].find_file(&w.names[fe.3]).ok().flatten().map(|i| i.file_size);
                        ctx.out.oracle(want == Some(r as u64), "ffi-size-differs-from-rust-api", &format!("{trace} size {f} -> {r}")); } }
                    (format!("c19 size {f}"), if ok { format!("n:{r}") } else { err_name().into() }) }
                12 => { // find first (mask * or *.bin), then has-file agreement
                    let a = pick_arch(&mut ctx.rng, &archs);
                    let mask = *ctx.rng.pick(&["*", "*.bin", "dir\\*", "zzz*"]);
                    let cm = CString::new(mask).unwrap();
                    let mut fd: SFILE_FIND_DATA = unsafe { std::mem::zeroed() };
                    let r = unsafe { SFileFindFirstFile(h(a), cm.as_ptr(), &mut fd, std::ptr::null()) };
                    let ok = r != INVALID_HANDLE_VALUE && !r.is_null();
                    let wi = archs.iter().find(|x| x.0 == a).map(|x| x.1);
                    let total = wi.map(|wi| rust[wi].list().map(|l| l.iter().filter(|e| match mask { "*" => true, "*.bin" => e.name.to_lowercase().ends_with(".bin"), "dir\\*" => e.name.to_lowercase().starts_with("dir\\"), _ => false }).count()).unwrap_or(0)).unwrap_or(0);
                    if ok { finds.push(r as usize); next_id = r as usize + 1; }
                    if let (Some(wi), true) = (wi, live_arch.contains(&a)) { for (ni, n) in w.names.iter().enumerate() { let cn = CString::new(n.as_str()).unwrap();
                        let has = unsafe { SFileHasFile(h(a), cn.as_ptr()) }; ctx.out.oracle(has == w.data[wi][ni].is_some(), "ffi-hasfile-differs-from-rust-api", &format!("{trace} has {n}")); } }
                    (format!("c19 findfirst {a} {total}"), if ok { format!("h:{}", r as usize) } else { err_name().into() })
                }
                _ => { let g = match ctx.rng.below(6) { 0 => 0, 1 => next_id + 3, _ => if finds.is_empty() { 5 } else { *ctx.rng.pick(&finds) } };
                    if ctx.rng.chance(2, 3) { let mut fd: SFILE_FIND_DATA = unsafe { std::mem::zeroed() }; let ok = unsafe { SFileFindNextFile(h(g), &mut fd) };
                        (format!("c19 findnext {g}"), if ok { "ok".into() } else { err_name().into() }) }
                    else { let ok = unsafe { SFileFindClose(h(g)) }; (format!("c19 findclose {g}"), if ok { "ok".into() } else { err_name().into() }) } }
            };
            trace.push_str(&format!("{} -> {}; ", req.replace("c19 ", ""), ans));
            if trace.len() > 1500 { trace = trace[trace.len() - 1200..].to_string(); }
            ctx.out.case(&req, &ans);
            ctx.out.stat(&format!("c19.{}.{}", req.split(' ').nth(1).unwrap_or("?"), ans.split(':').next().unwrap_or("?")));
        }
        // leave the tables empty for the next history
        for f in &files { let _ = SFileCloseFile(h(f.0)); }
        for g in &finds { let _ = unsafe { SFileFindClose(h(*g)) }; }
        for a in &archs { let _ = SFileCloseArchive(h(a.0)); }
    }
    // forged handles that agree with a live one in the low 32 bits only: every entry point must refuse them, and closing
    // one must not close the live object
    {
        let cp = CString::new(w.paths[0].to_str().unwrap_or("")).unwrap();
        let mut a: HANDLE = std::ptr::null_mut();
        if unsafe { SFileOpenArchive(cp.as_ptr(), 0, 0, &mut a) } {
            let cn = CString::new("a.txt").unwrap();
            let mut f: HANDLE = std::ptr::null_mut();
            let okf = unsafe { SFileOpenFileEx(a, cn.as_ptr(), 0, &mut f) };
            for k in [1usize, 2, 0x8000_0000, 0xFFFF_FFFF] {
                let fa = ((a as usize) ^ (k << 32)) as HANDLE;
                let has = unsafe { SFileHasFile(fa, cn.as_ptr()) };
                let mut out: HANDLE = std::ptr::null_mut();
                let opened = unsafe { SFileOpenFileEx(fa, cn.as_ptr(), 0, &mut out) };
                if opened { let _ = SFileCloseFile(out); }
                let closed = SFileCloseArchive(fa);
                ctx.out.oracle(!has && !opened && !closed, "ffi-accepts-forged-handle", &format!("archive handle {:#x} forged as {:#x}: has={has} open={opened} close={closed}", a as usize, fa as usize));
                if okf {
                    let ff = ((f as usize) ^ (k << 32)) as HANDLE;
                    let mut hi32 = 0u32; let sz = unsafe { SFileGetFileSize(ff, &mut hi32) };
                    let size_ok = !(sz == 0xFFFF_FFFF && SFileGetLastError() != 0);
                    let closedf = SFileCloseFile(ff);
                    ctx.out.oracle(!size_ok && !closedf, "ffi-accepts-forged-handle", &format!("file handle {:#x} forged as {:#x}: size={size_ok} close={closedf}", f as usize, ff as usize));
                }
                ctx.out.stat("c19.forged_high_bits");
            }
            // the live objects are still there
            let still = unsafe { SFileHasFile(a, cn.as_ptr()) };
            ctx.out.oracle(still, "ffi-forged-close-closed-live-handle", "archive no longer answers after closing forged handles");
            if okf { let _ = SFileCloseFile(f); }
            let _ = SFileCloseArchive(a);
            next_id = (a as usize).max(f as usize) + 1;
        }
    }
    // caller buffers of every size around the needed one, fenced by canaries: a call either fits its answer (terminator
    // included) into the size it was given or fails; nothing behind the given size is touched
    {
        let cp = CString::new(w.paths[0].to_str().unwrap_or("")).unwrap();
        let mut a: HANDLE = std::ptr::null_mut();
        if unsafe { SFileOpenArchive(cp.as_ptr(), 0, 0, &mut a) } {
            let plen = cp.as_bytes().len();
            for size in 0..plen + 4 {
                let mut buf = vec![CANARY; plen + 40];
                let ok = unsafe { SFileGetArchiveName(a, buf[8..].as_mut_ptr() as *mut std::os::raw::c_char, size as u32) };
                let fenced = buf[..8].iter().all(|b| *b == CANARY) && buf[8 + size..].iter().all(|b| *b == CANARY);
                let fits = !ok || (size > plen && buf[8..8 + plen] == *cp.as_bytes() && buf[8 + plen] == 0);
                ctx.out.oracle(fenced && fits, "ffi-wrote-outside-callers-buffer", &format!("SFileGetArchiveName with buffer_size={size} (name is {plen} bytes + terminator): returned {ok}, fence intact={fenced}"));
                ctx.out.stat("c19.buffer_sweep.archive_name");
                // Model.C19Buf: what is written, or that nothing is
                ctx.out.case(&format!("c19buf archname {} {size}", hex(cp.as_bytes())), &(if ok { format!("ok {}", hex(&buf[8..8 + (plen + 1).min(buf.len() - 8)])) } else { "err".to_string() }));
            }
            let cn = CString::new("a.txt").unwrap();
            let mut f: HANDLE = std::ptr::null_mut();
            let okf = unsafe { SFileOpenFileEx(a, cn.as_ptr(), 0, &mut f) };
            for (hnd, is_file) in [(a, false), (f, true)] {
                if is_file && !okf { continue; }
                for class in [0u32, 1, 2, 3, 4, 5, 7, 10, 99] { for size in 0..12usize {
                    let mut buf = vec![CANARY; 48];
                    let mut needed: u32 = 0xABCD;
                    let ok = unsafe { SFileGetFileInfo(hnd, class, buf[8..].as_mut_ptr() as *mut c_void, size as u32, &mut needed) };
                    let fenced = buf[..8].iter().all(|b| *b == CANARY) && buf[8 + size..].iter().all(|b| *b == CANARY);
                    let consistent = !ok || (needed as usize) <= size;
                    ctx.out.oracle(fenced && consistent, "ffi-wrote-outside-callers-buffer", &format!("SFileGetFileInfo class {class} on {} with buffer_size={size}: returned {ok}, needed={needed}, fence intact={fenced}", if is_file { "a file handle" } else { "an archive handle" }));
                    ctx.out.stat("c19.buffer_sweep.file_info");
                    // Model.C19Buf.info: a supported class writes exactly `needed` bytes (the value, little-endian) when the buffer holds
                    // them and nothing otherwise; `needed` is reported either way (0xABCD left alone = class not supported)
                    if needed != 0xABCD && needed <= 16 {
                        let val = if ok { let mut v = 0u128; for (i, b) in buf[8..8 + needed as usize].iter().enumerate() { v |= (*b as u128) << (8 * i); } v } else { 0 };
                        let written = if ok { let k = (8..48).rev().find(|i| buf[*i] != CANARY).map(|i| i + 1 - 8).unwrap_or(0).max(needed as usize); hex(&buf[8..8 + k]) } else { "-".to_string() };
                        if ok { ctx.out.case(&format!("c19buf info {needed} {val} {size}"), &format!("ok {written}")); } else { ctx.out.case(&format!("c19buf info {needed} 0 {size}"), "err"); }
                    }
                } }
            }
            if okf { let _ = SFileCloseFile(f); }
            let _ = SFileCloseArchive(a);
        }
    }
    // writable archives (SFileCreateArchive2): after every add / replace / remove / rename / flush / compact, what the C API
    // shows for every name (exists, size, bytes) is what a plain name -> bytes map says, before any flush as well as after;
    // after closing, the Rust reader sees the same map
    {
        use std::collections::BTreeMap;
        let dir = tempfile::tempdir().expect("tmp");
        let pool = ["keep.txt", "Dir\\new.bin", "moved.bin", "other.dat", "never.bin"];
        let n_hist = if ctx.thorough { 120 } else { 24 };
        for hi in 0..n_hist {
            let path = dir.path().join(format!("w{hi}.mpq"));
            let cp = CString::new(path.to_str().unwrap_or("")).unwrap();
            let info = SFILE_CREATE_MPQ { cb_size: std::mem::size_of::<SFILE_CREATE_MPQ>() as u32, mpq_version: (hi % 4) as u32, user_data: std::ptr::null_mut(), cb_user_data: 0, stream_flags: 0,
                file_flags_1: if hi % 3 == 0 { 0 } else { 1 }, file_flags_2: 0, file_flags_3: 0, attr_flags: 0, sector_size: 3, raw_chunk_size: 0, max_file_count: 16 };
            let mut a: HANDLE = std::ptr::null_mut();
            if !unsafe { SFileCreateArchive2(cp.as_ptr(), &info, &mut a) } { ctx.out.stat("c19.writable.create_failed"); continue; }
            let mut map: BTreeMap<String, Vec<u8>> = BTreeMap::new();
            // file handles kept open across later steps (an application streaming one file while it patches another - or the
            // same one): what a NEW open returns never depends on which older handles are still around
            let mut lingering: Vec<HANDLE> = vec![];
            let mut trace = format!("create v{} listfile={}; ", hi % 4 + 1, hi % 3 != 0);
            let steps = ctx.rng.range(3, 14);
            for st in 0..steps {
                let n = pool[ctx.rng.below(4) as usize].to_string();
                match ctx.rng.below(10) {
                    0..=3 => {
                        let len = *ctx.rng.pick(&[0usize, 1, 17, 300, 5000]);
                        let data: Vec<u8> = (0..len).map(|j| ((j * 13 + st as usize + hi as usize) % 251) as u8).collect();
                        let src = dir.path().join("src.bin"); std::fs::write(&src, &data).ok();
                        let replace = ctx.rng.chance(2, 3);
                        let cs = CString::new(src.to_str().unwrap_or("")).unwrap(); let cn = CString::new(n.as_str()).unwrap();
                        let ok = unsafe { SFileAddFileEx(a, cs.as_ptr(), cn.as_ptr(), if replace { 0x8000_0000 } else { 0 }, *ctx.rng.pick(&[0u32, 0x02, 0x10]), 0) };
                        trace.push_str(&format!("add {n} {len}b replace={replace} -> {ok}; "));
                        if ok { if map.contains_key(&n) && !replace { ctx.out.oracle(false, "ffi-add-without-replace-overwrites", &trace); } map.insert(n.clone(), data); }
                        else if !map.contains_key(&n) || replace { ctx.out.known("ffi-add-refused", &trace); }
                    }
                    4 | 5 => { let cn = CString::new(n.as_str()).unwrap(); let ok = unsafe { SFileRemoveFile(a, cn.as_ptr(), 0) }; trace.push_str(&format!("remove {n} -> {ok}; "));
                        if ok { if map.remove(&n).is_none() { ctx.out.oracle(false, "ffi-remove-of-absent-name-succeeds", &trace); } } else if map.contains_key(&n) { ctx.out.oracle(false, "ffi-remove-of-present-name-fails", &trace); } }
                    6 | 7 => { let m = pool[ctx.rng.below(4) as usize].to_string(); let (c1, c2) = (CString::new(n.as_str()).unwrap(), CString::new(m.as_str()).unwrap());
                        let ok = unsafe { SFileRenameFile(a, c1.as_ptr(), c2.as_ptr()) }; trace.push_str(&format!("rename {n} {m} -> {ok}; "));
                        if ok { if map.contains_key(&m) && m != n { ctx.out.oracle(false, "ffi-rename-onto-existing-name-succeeds", &trace); } if let Some(d) = map.remove(&n) { map.insert(m, d); } else { ctx.out.oracle(false, "ffi-rename-of-absent-name-succeeds", &trace); } } }
                    8 => { let ok = unsafe { SFileFlushArchive(a) }; trace.push_str(&format!("flush -> {ok}; ")); }
                    _ => { let ok = unsafe { SFileCompactArchive(a, std::ptr::null(), false) }; trace.push_str(&format!("compact -> {ok}; ")); }
                }
                // the C API's view of every pool name, through the same handle, right now
                for name in pool {
                    let cn = CString::new(name).unwrap();
                    let has = unsafe { SFileHasFile(a, cn.as_ptr()) };
                    let mut f: HANDLE = std::ptr::null_mut();
                    let opened = unsafe { SFileOpenFileEx(a, cn.as_ptr(), 0, &mut f) };
                    let want = map.get(name);
                    let mut good = has == want.is_some() && opened == want.is_some();
                    if opened {
                        let mut hi32 = 0u32; let sz = unsafe { SFileGetFileSize(f, &mut hi32) } as usize;
                        let mut buf = vec![CANARY; sz + 64]; let mut got = 0u32;
                        let okr = unsafe { SFileReadFile(f, buf[16..].as_mut_ptr() as *mut c_void, sz as u32 + 32, &mut got, std::ptr::null_mut()) };
                        if let Some(d) = want { good &= sz == d.len() && (okr || d.is_empty()) && got as usize == d.len() && buf[16..16 + got as usize] == d[..]; }
                        good &= buf[..16].iter().all(|b| *b == CANARY) && buf[16 + got as usize..].iter().all(|b| *b == CANARY);
                        if hi % 2 == 1 && lingering.len() < 8 && ctx.rng.chance(1, 3) { lingering.push(f); trace.push_str(&format!("(handle on {name} kept open) ")); } else { let _ = SFileCloseFile(f); }
                    }
                    ctx.out.oracle(good, "ffi-writable-view-differs-from-map", &format!("{name}: has={has} opened={opened} want={:?} :: {trace}", want.map(|d| d.len())));
                }
                if trace.len() > 1200 { trace = format!("…{}", &trace[trace.len() - 900..]); }
            }
            for f in lingering { let _ = SFileCloseFile(f); }
            let _ = SFileCloseArchive(a);
            match Archive::open(&path) { Ok(mut r) => { for name in pool { let got = r.read_file(name).ok(); ctx.out.oracle(got.as_ref() == map.get(name), "ffi-written-archive-differs-from-map", &format!("{name}: rust reads {:?}, map {:?} :: {trace}", got.as_ref().map(|d| d.len()), map.get(name).map(|d| d.len()))); } }
                Err(e) => ctx.out.oracle(false, "ffi-written-archive-does-not-open", &format!("{e} :: {trace}")) }
            ctx.out.stat("c19.writable.history"); ctx.out.nontrivial(trace.as_bytes());
        }
    }
    // long names through SFileGetFileName / find data: the caller's MAX_PATH buffers must not be overrun
    {
        let dir = tempfile::tempdir().expect("tmp");
        let long = format!("{}\\{}.txt", "d".repeat(150), "n".repeat(200));
        let p = dir.path().join("long.mpq");
        // next to it: names longer than the find-data buffer whose byte 259 falls inside a 2-, 3- and 4-byte character, and
        // one where a character ends exactly there (enumeration must neither crash nor overrun)
        let mut lb = ArchiveBuilder::new().listfile_option(ListfileOption::Generate).add_file_data(b"x".to_vec(), &long);
        let mut all_names: Vec<String> = vec![long.clone(), "(listfile)".to_string()];
        for (pre, ch) in [(258usize, "\u{e9}"), (258, "\u{20ac}"), (257, "\u{20ac}"), (258, "\u{1f600}"), (257, "\u{1f600}"), (256, "\u{1f600}"), (257, "\u{e9}")] {
            let n = format!("{}{}{}.dat", "u".repeat(pre), ch, "t".repeat(20));
            lb = lb.add_file_data(b"y".to_vec(), &n); all_names.push(n);
        }
        // ordinary names with zero, one and several separators (where szPlainName has to point)
        for n in ["plain.txt", "one\\level.txt", "a\\b\\c\\deep.bin", "trailing\\sep\\x"] { lb = lb.add_file_data(b"z".to_vec(), n); all_names.push(n.to_string()); }
        lb.build(&p).expect("build long");
        let cp = CString::new(p.to_str().unwrap_or("")).unwrap();
        let mut a: HANDLE = std::ptr::null_mut();
        if unsafe { SFileOpenArchive(cp.as_ptr(), 0, 0, &mut a) } {
            let cn = CString::new(long.as_str()).unwrap();
            let mut f: HANDLE = std::ptr::null_mut();
            if unsafe { SFileOpenFileEx(a, cn.as_ptr(), 0, &mut f) } {
                let mut buf = vec![CANARY as i8; 260 + 600];
                let ok = unsafe { SFileGetFileName(f, buf.as_mut_ptr()) };
                let over = buf[260..].iter().any(|b| *b != CANARY as i8);
                ctx.out.oracle(!over, "ffi-getfilename-overruns-max-path", &format!("name of {} bytes, returned {ok}", long.len()));
                let written: Vec<u8> = { let k = buf.iter().position(|b| *b == 0).map(|k| k + 1).unwrap_or(buf.len()); buf[..k].iter().map(|b| *b as u8).collect() };
                ctx.out.case(&format!("c19buf filename {}", hex(long.as_bytes())), &(if ok { format!("ok {}", hex(&written)) } else { "err".to_string() }));
            }
            let cm = CString::new("*").unwrap();
            let mut fd: SFILE_FIND_DATA = unsafe { std::mem::zeroed() };
            let r = unsafe { SFileFindFirstFile(a, cm.as_ptr(), &mut fd, std::ptr::null()) };
            if r != INVALID_HANDLE_VALUE && !r.is_null() {
                loop {
                    let base = fd.c_file_name.as_ptr() as usize;
                    let plain = fd.sz_plain_name as usize;
                    ctx.out.oracle(plain >= base && plain < base + 260, "ffi-plain-name-outside-buffer", &format!("offset {}", plain.wrapping_sub(base)));
                    // Model.C19Buf.findData for the entry this is (identified by its first 259 bytes)
                    let arr: Vec<u8> = fd.c_file_name.iter().map(|b| *b as u8).collect();
                    let shown: Vec<u8> = arr.iter().copied().take_while(|b| *b != 0).collect();
                    if let Some(full) = all_names.iter().find(|n| n.as_bytes()[..n.len().min(259)] == shown[..]) {
                        ctx.out.case(&format!("c19buf finddata {}", hex(full.as_bytes())), &format!("{} {}", hex(&arr), plain.wrapping_sub(base)));
                        ctx.out.stat("c19.finddata_model");
                    }
                    if !unsafe { SFileFindNextFile(r, &mut fd) } { break; }
                }
                let _ = unsafe { SFileFindClose(r) };
            }
            let _ = SFileCloseArchive(a);
        }
    }
}
