//! C17 — DBC write→parse round trip, size formula, string interning, access-path agreement, key lookups.
use crate::common::*;
use std::io::Cursor;
use std::sync::Arc;
use wow_cdbc::{
    DbcParser, DbcWriter, FieldType, LazyDbcParser, MmapDbcFile, RecordSet, Schema, SchemaField, StringBlock,
    Value, parse_records_parallel,
};

#[derive(Clone, Copy, PartialEq, Debug)]
enum FT { I32, U32, F32, Str, Bool, U8, I8, U16, I16 }
const ALL: [FT; 9] = [FT::I32, FT::U32, FT::F32, FT::Str, FT::Bool, FT::U8, FT::I8, FT::U16, FT::I16];
impl FT {
    fn size(self) -> usize { match self { FT::U8 | FT::I8 => 1, FT::U16 | FT::I16 => 2, _ => 4 } }
    fn name(self) -> &'static str {
        match self { FT::I32 => "i32", FT::U32 => "u32", FT::F32 => "f32", FT::Str => "str", FT::Bool => "bool",
            FT::U8 => "u8", FT::I8 => "i8", FT::U16 => "u16", FT::I16 => "i16" }
    }
    fn rust(self) -> FieldType {
        match self { FT::I32 => FieldType::Int32, FT::U32 => FieldType::UInt32, FT::F32 => FieldType::Float32,
            FT::Str => FieldType::String, FT::Bool => FieldType::Bool, FT::U8 => FieldType::UInt8,
            FT::I8 => FieldType::Int8, FT::U16 => FieldType::UInt16, FT::I16 => FieldType::Int16 }
    }
}
#[derive(Clone, Debug)]
struct Fld { ty: FT, arr: Option<usize> }
#[derive(Clone, Debug, PartialEq)]
enum Cell { Num(u64), Str(Vec<u8>) }

fn schema_str(s: &[Fld]) -> String {
    s.iter().map(|f| match f.arr { Some(n) => format!("{}*{}", f.ty.name(), n), None => f.ty.name().to_string() })
        .collect::<Vec<_>>().join(",")
}
fn table_str(t: &[Vec<Cell>]) -> String {
    if t.is_empty() { return "-".into(); }
    t.iter().map(|r| r.iter().map(|c| match c { Cell::Num(v) => v.to_string(), Cell::Str(s) => format!("s{}", hex(s)) })
        .collect::<Vec<_>>().join(",")).collect::<Vec<_>>().join(";")
}
fn flat_types(s: &[Fld]) -> Vec<FT> {
    s.iter().flat_map(|f| std::iter::repeat(f.ty).take(f.arr.unwrap_or(1))).collect()
}
fn rust_schema(s: &[Fld], key: Option<usize>) -> Schema {
    let mut sc = Schema::new("T");
    for (i, f) in s.iter().enumerate() {
        match f.arr {
            Some(n) => sc.add_field(SchemaField::new_array(format!("f{i}"), f.ty.rust(), n)),
            None => sc.add_field(SchemaField::new(format!("f{i}"), f.ty.rust())),
        };
    }
    if let Some(k) = key { sc.set_key_field_index(k); }
    sc
}
/// independent, naive source writer: every string cell gets its own copy in the string block (no interning)
fn naive_bytes(s: &[Fld], t: &[Vec<Cell>], intern_dups: bool) -> Vec<u8> { naive_bytes_lead(s, t, intern_dups, true) }
/// `lead` = the string block starts with the conventional empty string; without it the first string sits at offset 0 and
/// an empty string is a reference to a NUL of its own (files of other writers look like that)
fn naive_bytes_lead(s: &[Fld], t: &[Vec<Cell>], intern_dups: bool, lead: bool) -> Vec<u8> {
    let tys = flat_types(s);
    let rsize: usize = tys.iter().map(|t| t.size()).sum();
    let mut block = if lead { vec![0u8] } else { vec![] };
    let mut recs = Vec::new();
    let mut seen: std::collections::HashMap<Vec<u8>, u32> = Default::default();
    for r in t {
        for (c, ty) in r.iter().zip(&tys) {
            match c {
                Cell::Num(v) => recs.extend_from_slice(&v.to_le_bytes()[..ty.size()]),
                Cell::Str(sv) => {
                    let off = if sv.is_empty() { if lead { 0 } else { block.push(0); block.len() as u32 - 1 } } else if intern_dups && seen.contains_key(sv) { seen[sv] } else {
                        let o = block.len() as u32; block.extend_from_slice(sv); block.push(0); seen.insert(sv.clone(), o); o };
                    recs.extend_from_slice(&off.to_le_bytes());
                }
            }
        }
    }
    let mut out = b"WDBC".to_vec();
    out.extend_from_slice(&(t.len() as u32).to_le_bytes());
    out.extend_from_slice(&(tys.len() as u32).to_le_bytes());
    out.extend_from_slice(&(rsize as u32).to_le_bytes());
    out.extend_from_slice(&(block.len() as u32).to_le_bytes());
    out.extend_from_slice(&recs);
    out.extend_from_slice(&block);
    out
}
fn flatten(v: &Value, rs_str: &dyn Fn(u32) -> Result<Vec<u8>, String>, out: &mut Vec<Cell>) -> Result<(), String> {
    match v {
        Value::Int32(x) => out.push(Cell::Num(*x as u32 as u64)),
        Value::UInt32(x) => out.push(Cell::Num(*x as u64)),
        Value::Float32(x) => out.push(Cell::Num(x.to_bits() as u64)),
        Value::StringRef(r) => out.push(Cell::Str(rs_str(r.offset())?)),
        Value::Bool(b) => out.push(Cell::Num(*b as u64)),
        Value::UInt8(x) => out.push(Cell::Num(*x as u64)),
        Value::Int8(x) => out.push(Cell::Num(*x as u8 as u64)),
        Value::UInt16(x) => out.push(Cell::Num(*x as u64)),
        Value::Int16(x) => out.push(Cell::Num(*x as u16 as u64)),
        Value::Array(vs) => { for x in vs { flatten(x, rs_str, out)?; } }
    }
    Ok(())
}
fn table_of(rs: &RecordSet) -> Result<Vec<Vec<Cell>>, String> {
    let f = |o: u32| rs.get_string(wow_cdbc::StringRef::new(o)).map(|s| s.as_bytes().to_vec()).map_err(|e| e.to_string());
    rs.records().iter().map(|r| { let mut o = vec![]; for v in r.values() { flatten(v, &f, &mut o)?; } Ok(o) }).collect()
}
fn row_of(r: &wow_cdbc::Record, sb: &StringBlock) -> Result<Vec<Cell>, String> {
    let f = |o: u32| sb.get_string(wow_cdbc::StringRef::new(o)).map(|s| s.as_bytes().to_vec()).map_err(|e| e.to_string());
    let mut o = vec![]; for v in r.values() { flatten(v, &f, &mut o)?; } Ok(o)
}

fn gen_string(rng: &mut Rng, pool: &[Vec<u8>]) -> Vec<u8> {
    match rng.below(10) {
        0 => vec![],
        1..=5 => rng.pick(pool).clone(),
        6 => "Ünïcödé 世界".as_bytes().to_vec(),
        _ => { let n = rng.range(1, 12) as usize; (0..n).map(|_| b'a' + rng.below(26) as u8).collect() }
    }
}
fn gen_num(rng: &mut Rng, ty: FT) -> u64 {
    let bits = 8 * ty.size() as u32;
    let max = if bits == 32 { u32::MAX as u64 } else { (1u64 << bits) - 1 };
    if ty == FT::Bool { return rng.below(2); }
    match rng.below(8) {
        0 => 0, 1 => max, 2 => max / 2 + 1, 3 => 1,
        4 if ty == FT::F32 => *rng.pick(&[0x7FC00001u64, 0xFF800000, 0x00000001, 0x80000000, 0x7F7FFFFF, 0x7FA00000]),
        _ => rng.next() & max,
    }
}

pub struct Case { s: Vec<Fld>, key: Option<usize>, t: Vec<Vec<Cell>> }

fn gen_case(rng: &mut Rng, nrec: usize, allow_arrays: bool) -> Case {
    let nf = rng.range(1, 24) as usize;
    let mut s = vec![];
    for _ in 0..nf {
        let ty = *rng.pick(&ALL);
        let arr = if allow_arrays && rng.chance(1, 5) { Some(rng.range(1, 4) as usize) } else { None };
        s.push(Fld { ty, arr });
    }
    let keyable: Vec<usize> = s.iter().enumerate().filter(|(_, f)| f.arr.is_none() && (f.ty == FT::U32 || f.ty == FT::I32)).map(|(i, _)| i).collect();
    let key = if !keyable.is_empty() && rng.chance(3, 4) { Some(*rng.pick(&keyable)) } else { None };
    let pool: Vec<Vec<u8>> = (0..4).map(|i| format!("str{i}").into_bytes()).chain([b"ab".to_vec(), b"b".to_vec(), b"abab".to_vec()]).collect();
    let tys = flat_types(&s);
    let key_slot = key.map(|k| s[..k].iter().map(|f| f.arr.unwrap_or(1)).sum::<usize>());
    let small_keys = rng.chance(1, 2);
    let t = (0..nrec).map(|_| tys.iter().enumerate().map(|(j, ty)| {
        if *ty == FT::Str { Cell::Str(gen_string(rng, &pool)) }
        else if Some(j) == key_slot && small_keys { Cell::Num(rng.below(12)) }
        else { Cell::Num(gen_num(rng, *ty)) }
    }).collect()).collect();
    let mut t: Vec<Vec<Cell>> = t;
    // structured key columns (file order matters to any index built over it): consecutive, sorted with duplicates and
    // gaps, a duplicate that exactly compensates a gap (first..last spans as many values as there are records), descending
    if let Some(slot) = key_slot {
        let mode = rng.below(8);
        let base = rng.below(40);
        let n = t.len();
        let col: Option<Vec<u64>> = match mode {
            2 => Some((0..n as u64).map(|i| base + i).collect()),
            3 => { let mut v = vec![]; let mut cur = base; for _ in 0..n { v.push(cur); cur += rng.below(3); } Some(v) }
            4 | 5 if n >= 3 => {
                let mut v: Vec<u64> = (0..n as u64).map(|i| base + i).collect();
                for _ in 0..(1 + rng.below(2)) { let i = 1 + rng.below(n as u64 - 2) as usize; v[i] = v[i - 1]; }
                Some(v)
            }
            6 => Some((0..n as u64).rev().map(|i| base + i).collect()),
            _ => None,
        };
        if let Some(col) = col { for (row, v) in t.iter_mut().zip(col) { row[slot] = Cell::Num(v); } }
    }
    Case { s, key, t }
}

fn run_case(ctx: &mut Ctx, c: &Case, model_ok: bool) {
    let sch = schema_str(&c.s);
    let desc = format!("schema={} key={:?} table={}", sch, c.key, { let s = table_str(&c.t); if s.len() > 600 { format!("{}…({} rows)", &s[..600], c.t.len()) } else { s } });
    let lead = !ctx.rng.chance(1, 4);
    if !lead { ctx.out.stat("source.string_block_without_leading_empty_string"); }
    let src = naive_bytes_lead(&c.s, &c.t, ctx.rng.chance(1, 2), lead);
    let has_arr = c.s.iter().any(|f| f.arr.is_some());
    let str_in_arr = c.s.iter().any(|f| f.arr.is_some() && f.ty == FT::Str);
    let key_i32 = c.key.map(|k| c.s[k].ty == FT::I32).unwrap_or(false);
    ctx.out.stat(if has_arr { "schema.with_arrays" } else { "schema.scalar_only" });
    if str_in_arr { ctx.out.stat("schema.string_array"); }
    if key_i32 { ctx.out.stat("schema.key_i32"); }
    ctx.out.stat(&format!("records.{}", match c.t.len() { 0 => "0", 1 => "1", 2..=20 => "2-20", 21..=1000 => "21-1000", _ => ">1000" }));
    // ---- eager parse of the source bytes
    let parser = match DbcParser::parse_bytes(&src).and_then(|p| p.with_schema(rust_schema(&c.s, c.key))) {
        Ok(p) => p,
        Err(e) => { ctx.out.oracle(false, "parse-of-valid-source-fails", &format!("{desc}: {e}")); return; }
    };
    let mut rs = match parser.parse_records() {
        Ok(r) => r,
        Err(e) => { ctx.out.oracle(false, "parse-of-valid-source-fails", &format!("{desc}: {e}")); return; }
    };
    let t1 = table_of(&rs);
    ctx.out.oracle(t1.as_ref().ok() == Some(&c.t), "parse-differs-from-source", &desc);
    if model_ok && src.len() < 200_000 {
        ctx.out.case(&format!("dbcparse {} {}", sch, hex(&src)), &match &t1 { Ok(t) => format!("ok {}", table_str(t)), Err(_) => "err string".into() });
    }
    // ---- write
    let mut w = Cursor::new(Vec::new());
    let wres = DbcWriter::new(&mut w).with_schema(rust_schema(&c.s, c.key)).write_records(&rs);
    let wb = w.into_inner();
    if let Err(e) = wres { ctx.out.oracle(false, "write-fails", &format!("{desc}: {e}")); return; }
    if model_ok && wb.len() < 200_000 {
        ctx.out.case(&format!("dbcwrite {} {}", sch, table_str(&c.t)), &hex(&wb));
    }
    // size formula + strings stored once
    let rsize: usize = flat_types(&c.s).iter().map(|t| t.size()).sum();
    let sblock = if wb.len() >= 20 { u32::from_le_bytes([wb[16], wb[17], wb[18], wb[19]]) as usize } else { 0 };
    ctx.out.oracle(wb.len() == 20 + c.t.len() * rsize + sblock, "size-formula", &format!("{desc}: len={} rsize={} sblock={}", wb.len(), rsize, sblock));
    if wb.len() >= 20 + c.t.len() * rsize {
        let blk = &wb[20 + c.t.len() * rsize..];
        let mut strs: Vec<&[u8]> = blk.split(|b| *b == 0).collect();
        strs.pop(); // after final NUL
        let n = strs.len(); strs.sort(); strs.dedup();
        ctx.out.oracle(n == strs.len(), "string-stored-twice", &desc);
        let mut want: Vec<&[u8]> = c.t.iter().flatten().filter_map(|c| if let Cell::Str(s) = c { Some(&s[..]) } else { None }).collect();
        want.push(b""); want.sort(); want.dedup();
        if want.len() > 2 { ctx.out.nontrivial(desc.as_bytes()); }
    }
    // reparse what was written
    let tag_rt = if str_in_arr { "roundtrip-string-array" } else if has_arr { "roundtrip-array-schema" } else { "roundtrip" };
    let p2 = DbcParser::parse_bytes(&wb).and_then(|p| p.with_schema(rust_schema(&c.s, c.key))).and_then(|p| p.parse_records().map(|r| (p, r)));
    let (parser2, rs2) = match p2 {
        Ok(x) => x,
        Err(e) => { ctx.out.oracle(false, tag_rt, &format!("{desc}: reparse of written bytes: {e}")); return; }
    };
    let t2 = table_of(&rs2);
    ctx.out.oracle(t2.as_ref().ok() == Some(&c.t), tag_rt, &format!("{desc}: parse(write(t)) != t"));
    if model_ok && wb.len() < 200_000 {
        ctx.out.case(&format!("dbcparse {} {}", sch, hex(&wb)), &match &t2 { Ok(t) => format!("ok {}", table_str(t)), Err(_) => "err string".into() });
    }
    // second write is byte-identical (idempotence)
    let mut w2 = Cursor::new(Vec::new());
    let _ = DbcWriter::new(&mut w2).with_schema(rust_schema(&c.s, c.key)).write_records(&rs2);
    ctx.out.oracle(w2.into_inner() == wb, "rewrite-not-stable", &desc);
    // ---- access paths on the written file
    let header = *parser2.header();
    let schema2 = rust_schema(&c.s, c.key);
    let sb = Arc::new(rs2.string_block().clone());
    let lazy = LazyDbcParser::new(parser2.data(), &header, Some(&schema2), Arc::clone(&sb));
    let mut ok_lazy = true;
    for i in 0..c.t.len() {
        match lazy.get_record(i as u32) { Ok(r) => ok_lazy &= row_of(&r, &sb).ok().as_ref() == Some(&c.t[i]), Err(_) => ok_lazy = false }
    }
    ok_lazy &= lazy.get_record(c.t.len() as u32).is_err();
    let it: Vec<_> = lazy.record_iterator().collect();
    ok_lazy &= it.len() == c.t.len() && it.iter().enumerate().all(|(i, r)| r.as_ref().ok().and_then(|r| row_of(r, &sb).ok()).as_ref() == Some(&c.t[i]));
    ctx.out.oracle(ok_lazy, "lazy-differs", &desc);
    // the lazy iterator through the standard adaptors (nth / step_by / skip / last / count, alone and after the iterator
    // has advanced): the record at every position is the eager one
    {
        let n = c.t.len();
        let row = |r: Option<wow_cdbc::Result<wow_cdbc::Record>>| r.and_then(|r| r.ok()).and_then(|r| row_of(&r, &sb).ok());
        let bad_cell: std::cell::RefCell<Option<String>> = Default::default();
        let chk = |what: String, got: Option<Vec<Cell>>, want: Option<&Vec<Cell>>| { if bad_cell.borrow().is_none() && got.as_ref() != want { *bad_cell.borrow_mut() = Some(what); } };
        for k in [0usize, 1, 2, 3, n.saturating_sub(1), n, n + 1] { chk(format!("nth({k})"), row(lazy.record_iterator().nth(k)), c.t.get(k)); }
        for (a, b) in [(0usize, 0usize), (0, 1), (1, 2), (2, 0), (1, 1), (3, 4)] {
            let mut it = lazy.record_iterator();
            let first = row(it.nth(a)); chk(format!("nth({a}) then nth({b}): first"), first, c.t.get(a));
            chk(format!("nth({a}) then nth({b}): second"), row(it.nth(b)), c.t.get(a + 1 + b));
            chk(format!("nth({a}) then nth({b}) then next"), row(it.next()), c.t.get(a + b + 2));
        }
        for step in [1usize, 2, 3, 7] {
            let got: Vec<Option<Vec<Cell>>> = lazy.record_iterator().step_by(step).map(|r| row(Some(r))).collect();
            let want: Vec<Option<Vec<Cell>>> = c.t.iter().step_by(step).map(|r| Some(r.clone())).collect();
            if bad_cell.borrow().is_none() && got != want { *bad_cell.borrow_mut() = Some(format!("step_by({step})")); }
        }
        for k in [1usize, 2, 5] {
            let got: Vec<Option<Vec<Cell>>> = lazy.record_iterator().skip(k).map(|r| row(Some(r))).collect();
            let want: Vec<Option<Vec<Cell>>> = c.t.iter().skip(k).map(|r| Some(r.clone())).collect();
            if bad_cell.borrow().is_none() && got != want { *bad_cell.borrow_mut() = Some(format!("skip({k})")); }
        }
        chk("last()".into(), row(lazy.record_iterator().last()), c.t.last());
        if bad_cell.borrow().is_none() && lazy.record_iterator().count() != n { *bad_cell.borrow_mut() = Some("count()".into()); }
        let bad = bad_cell.into_inner();
        ctx.out.oracle(bad.is_none(), "lazy-iterator-adaptor-differs", &format!("{desc}: {}", bad.unwrap_or_default()));
    }
    if model_ok && !c.t.is_empty() && wb.len() < 50_000 {
        let i = ctx.rng.below(c.t.len() as u64) as usize;
        let nums: Vec<String> = lazy.get_record(i as u32).ok().map(|r| { let mut o = vec![]; let f = |o: u32| Ok(o.to_string().into_bytes());
            for v in r.values() { let _ = flatten(v, &f, &mut o); }
            o.iter().map(|c| match c { Cell::Num(v) => v.to_string(), Cell::Str(s) => String::from_utf8_lossy(s).to_string() }).collect() }).unwrap_or_default();
        ctx.out.case(&format!("dbcat {} {} {}", sch, hex(&wb), i), &nums.join(","));
    }
    match parse_records_parallel(parser2.data(), &header, Some(&schema2), Arc::clone(&sb)) {
        Ok(prs) => ctx.out.oracle(table_of(&prs).ok().as_ref() == Some(&c.t), "parallel-differs", &desc),
        Err(e) => ctx.out.oracle(false, "parallel-differs", &format!("{desc}: {e}")),
    }
    if c.t.len() % 7 == 0 {
        let tf = tempfile::NamedTempFile::new().expect("tmp");
        std::fs::write(tf.path(), &wb).ok();
        let ok = MmapDbcFile::open(tf.path()).and_then(|m| m.parser_with_schema(rust_schema(&c.s, c.key))).and_then(|p| p.parse_records())
            .ok().and_then(|r| table_of(&r).ok()).as_ref() == Some(&c.t);
        ctx.out.oracle(ok, "mmap-differs", &desc);
        ctx.out.stat("path.mmap");
    }
    // ---- key lookups
    if let Some(k) = c.key {
        let slot: usize = c.s[..k].iter().map(|f| f.arr.unwrap_or(1)).sum();
        let tag = if key_i32 { "key-lookup-i32" } else { "key-lookup" };
        let keys: Vec<u32> = c.t.iter().map(|r| if let Cell::Num(v) = r[slot] { v as u32 } else { 0 }).collect();
        let mut probe: Vec<u32> = keys.iter().copied().take(50).collect();
        probe.extend([0, 1, 5, 11, 12, u32::MAX, 0x8000_0000]);
        // every value between the smallest and largest key (absent ones inside the range included), and one past each end
        if let (Some(&lo), Some(&hi)) = (keys.iter().min(), keys.iter().max()) {
            for v in lo.saturating_sub(1)..=hi.saturating_add(1).min(lo.saturating_add(80)) { if !probe.contains(&v) { probe.push(v); } }
        }
        let mut sorted = rs2.clone();
        let sorted_ok = sorted.create_sorted_key_map().is_ok();
        let dup = { let mut k2 = keys.clone(); k2.sort(); k2.windows(2).any(|w| w[0] == w[1]) };
        if dup { ctx.out.stat("keys.duplicates"); }
        for key in probe {
            let present = keys.contains(&key);
            for (path, r) in [("hash", rs2.get_record_by_key(key)), ("bsearch", if sorted_ok { sorted.get_record_by_key_binary_search(key) } else { None })] {
                let ok = match r {
                    Some(rec) => present && row_of(rec, &sb).ok().map(|row| row[slot] == Cell::Num(key as u64)).unwrap_or(false),
                    None => !present,
                };
                ctx.out.oracle(ok, tag, &format!("{desc}: lookup({path}) of key {key} present={present} got={}", r.is_some()));
            }
        }
    }
    // string caching path resolves to the same text
    rs.enable_string_caching();
    ctx.out.oracle(table_of(&rs).ok().as_ref() == Some(&c.t), "cached-strings-differ", &desc);
}

pub fn run(ctx: &mut Ctx) {
    // corpus: fixed hard cases first
    let fixed = vec![
        Case { s: vec![Fld { ty: FT::U32, arr: None }, Fld { ty: FT::Str, arr: None }], key: Some(0),
               t: vec![vec![Cell::Num(3), Cell::Str(b"x".to_vec())], vec![Cell::Num(3), Cell::Str(b"x".to_vec())], vec![Cell::Num(1), Cell::Str(vec![])]] },
        Case { s: vec![Fld { ty: FT::U32, arr: None }, Fld { ty: FT::Str, arr: Some(2) }], key: None,
               t: vec![vec![Cell::Num(1), Cell::Str(b"in-array".to_vec()), Cell::Str(b"b".to_vec())]] },
        Case { s: vec![Fld { ty: FT::I32, arr: None }, Fld { ty: FT::U8, arr: Some(3) }], key: Some(0),
               t: vec![vec![Cell::Num(5), Cell::Num(1), Cell::Num(2), Cell::Num(3)], vec![Cell::Num(0xFFFF_FFFF), Cell::Num(0), Cell::Num(255), Cell::Num(7)]] },
        Case { s: vec![Fld { ty: FT::Bool, arr: None }], key: None, t: vec![] },
    ];
    for c in &fixed { guarded(ctx, c); }
    let n = if ctx.thorough { 3000 } else { 250 };
    for i in 0..n {
        let nrec = match ctx.rng.below(12) { 0 => 0, 1 => 1, 2..=8 => ctx.rng.range(2, 20), 9 | 10 => ctx.rng.range(21, 300), _ => ctx.rng.range(300, if ctx.thorough { 10_000 } else { 2000 }) } as usize;
        let mut rng = ctx.rng.clone();
        let c = gen_case(&mut rng, nrec, i % 3 != 0);
        ctx.rng = rng;
        guarded(ctx, &c);
        if i % 5 == 0 && c.t.len() < 30 { malformed(ctx, &c); }
    }
}

/// malformed stream: truncations and boundary values in the header of a valid file; outcome class vs the model
fn malformed(ctx: &mut Ctx, c: &Case) {
    let sch = schema_str(&c.s);
    let src = naive_bytes(&c.s, &c.t, true);
    if src.len() > 4000 { return; }
    let mut variants: Vec<Vec<u8>> = vec![];
    for cut in [0usize, 3, 4, 19, 20, 21, src.len().saturating_sub(1), src.len() / 2] {
        if cut < src.len() { variants.push(src[..cut].to_vec()); }
    }
    for field in 1..5usize {
        let old = u32::from_le_bytes([src[4 * field], src[4 * field + 1], src[4 * field + 2], src[4 * field + 3]]);
        for v in [0u32, 1, old.wrapping_add(1), old.saturating_sub(1), 0xFFFF] {
            // (huge record counts abort the process in Vec::with_capacity — that is C05's subject, not C17's)
            let mut m = src.clone();
            m[4 * field..4 * field + 4].copy_from_slice(&v.to_le_bytes());
            variants.push(m);
        }
    }
    let mut m = src.clone(); m[0] = b'X'; variants.push(m);
    // a string reference pointing outside / into the middle of the block
    for bytes in variants {
        let r = std::panic::catch_unwind(|| {
            DbcParser::parse_bytes(&bytes).and_then(|p| p.with_schema(rust_schema(&c.s, c.key))).and_then(|p| p.parse_records())
                .map(|rs| table_of(&rs))
        });
        let ans = match r {
            Err(_) => { ctx.out.oracle(false, "panic-malformed", &format!("schema={sch} bytes={}", hex(&bytes))); continue; }
            Ok(Ok(Ok(t))) => format!("ok {}", table_str(&t)),
            Ok(Ok(Err(_))) => "err string".to_string(),
            Ok(Err(e)) => match e {
                wow_cdbc::Error::InvalidHeader(_) => "err header".into(),
                wow_cdbc::Error::SchemaValidation(_) => "err schema".into(),
                wow_cdbc::Error::Io(_) => "err truncated".into(),
                other => format!("err other {other}"),
            },
        };
        ctx.out.stat(&format!("malformed.{}", if ans.starts_with("ok") { "ok".to_string() } else { ans.replace(" ", "_") }));
        ctx.out.case(&format!("dbcparse {} {}", sch, hex(&bytes)), &ans);
    }
}

fn guarded(ctx: &mut Ctx, c: &Case) {
    let r = std::panic::catch_unwind(std::panic::AssertUnwindSafe(|| run_case(ctx, c, true)));
    if let Err(e) = r {
        let msg = e.downcast_ref::<String>().cloned().or_else(|| e.downcast_ref::<&str>().map(|s| s.to_string())).unwrap_or_default();
        let tag = if c.t.is_empty() { "panic-empty-table" } else { "panic" };
        ctx.out.oracle(false, tag, &format!("schema={} rows={}: panic: {}", schema_str(&c.s), c.t.len(), msg));
    }
}
