//! C01 — build → open round trip over the configuration space, tied both ways to the Lean MPQ model:
//!   (a) Rust-built archive bytes → Lean reader (codec table supplied by the harness) → must equal Rust's read and the input
//!   (b) Lean-written archive → Rust Archive::open / read_file / list / find_file → must equal the input
use crate::c18_wdt::canon_rle;
use crate::common::*;
use wow_mpq::compression::flags;
use wow_mpq::{Archive, ArchiveBuilder, AttributesOption, FormatVersion, ListfileOption, compress};

#[derive(Clone, Debug)]
pub struct F { pub name: String, pub data: Vec<u8>, pub method: u8, pub enc: u8 }
#[derive(Clone, Debug)]
pub struct Cfg { pub ver: usize, pub shift: u16, pub crc: bool, pub attrs: u8, pub listfile: bool, pub table_comp: bool }

pub const VERS: [FormatVersion; 4] = [FormatVersion::V1, FormatVersion::V2, FormatVersion::V3, FormatVersion::V4];

pub fn content(rng: &mut Rng, len: usize, class: u64) -> Vec<u8> {
    match class {
        0 => rng.bytes(len),
        1 => vec![(rng.next() as u8) | 1; len],
        2 => { let p = rng.range(2, 7) as usize; let pat = rng.bytes(p); (0..len).map(|i| pat[i % p]).collect() }
        3 => { let mut v = vec![0u8; len]; let mut i = 0; while i < len { v[i] = rng.next() as u8 | 1; i += rng.range(1, 400) as usize; } v }
        _ => (0..len).map(|i| b"Lorem ipsum dolor sit amet, "[(i + i / 31) % 28]).collect(),
    }
}

/// inputs at the store-raw boundary for `method`: random prefix + constant run, with the prefix length chosen where the
/// compressor's output flips from framed to raw (payload length n-2, n-1, n) — the corner the reader re-derives from sizes
pub fn break_even(rng: &mut Rng, n: usize, method: u8) -> Vec<Vec<u8>> {
    let prefix = rng.bytes(n);
    let mk = |r: usize| -> Vec<u8> { let mut v = prefix[..r].to_vec(); v.extend(std::iter::repeat(0x41).take(n - r)); v };
    let mut last_framed = None;
    for r in 0..=n { let d = mk(r); match compress(&d, method) { Ok(c) if c.len() < d.len() => last_framed = Some(r), _ => {} } }
    match last_framed { Some(r) => (r.saturating_sub(1)..=(r + 3).min(n)).map(mk).collect(), None => vec![mk(n / 2)] }
}

pub fn spellings(rng: &mut Rng, n: &str) -> Vec<String> {
    let mixed: String = n.chars().map(|c| if rng.chance(1, 2) { c.to_ascii_uppercase() } else { c.to_ascii_lowercase() }).collect();
    vec![n.to_string(), n.to_ascii_uppercase(), n.to_ascii_lowercase().replace('\\', "/"), mixed]
}

pub fn gen_case(rng: &mut Rng, lossless_only: bool) -> (Cfg, Vec<F>) {
    let cfg = Cfg { ver: rng.below(4) as usize, shift: *rng.pick(&[0u16, 0, 1, 2, 3, 3, 5, 8]), crc: rng.chance(1, 3), attrs: rng.below(3) as u8,
        listfile: rng.chance(3, 4), table_comp: rng.chance(1, 5) };
    let ssz = 512usize << cfg.shift;
    let nfiles = rng.range(1, 6) as usize;
    let methods: &[u8] = if lossless_only { &[0, flags::ZLIB, flags::BZIP2, flags::LZMA, flags::SPARSE] } else { &[0, flags::ZLIB, flags::BZIP2, flags::LZMA, flags::SPARSE, flags::PKWARE] };
    let mut files = vec![];
    for i in 0..nfiles {
        let len = match rng.below(9) { 0 => 0, 1 => rng.range(1, 5) as usize, 2 => ssz - 1, 3 => ssz, 4 => ssz + 1, 5 => 3 * ssz + 7, 6 => 2 * ssz, _ => rng.range(1, (3 * ssz) as u64) as usize };
        let len = if rng.chance(1, 12) { len.min(300_000) } else { len.min(70_000) };
        let class = rng.below(5);
        let name = match i { 0 => "Data\\File0.txt".to_string(), 1 => "b.bin".to_string(), 2 => "Interface\\Glue\\TheQuickBrownFoxJumpsOverLazyDog_0189.blp".to_string() /* every letter takes part in case folding */, _ => format!("Dir{}\\Sub\\f{}.dat", i % 2, i) };
        files.push(F { name, data: content(rng, len, class), method: *rng.pick(methods), enc: rng.below(3) as u8 });
    }
    // one case in four carries names that differ ONLY in the case of a non-ASCII letter: the format folds ASCII letters only, so
    // these are different files (a Unicode-aware fold anywhere on the way would merge them)
    if rng.chance(1, 4) {
        for n in ["Sound\\Music\\Übersicht.txt", "Sound\\Music\\übersicht.txt", "ÀÉ.dat", "àÉ.dat"] {
            let len = rng.range(1, 900) as usize; let class = rng.below(5);
            files.push(F { name: n.to_string(), data: content(rng, len, class), method: *rng.pick(methods), enc: 0 });
        }
    }
    // one case in three carries names whose extended-table byte is the largest / smallest possible (0xFF, 0x80), two of them
    // colliding, next to ordinary names
    if rng.chance(1, 3) {
        let mut found = vec![]; let want = *rng.pick(&[0xFFu8, 0xFF, 0x80]); let base = rng.below(4000);
        for k in base..base + 3000 { let n = format!("hx\\f{k}.dat"); if wow_mpq::crypto::het_hash(&n, 8).1 == want { found.push(n); if found.len() >= 2 { break; } } }
        for (k, n) in found.into_iter().enumerate() { let at = if k == 0 { rng.below(files.len() as u64 + 1) as usize } else { files.len() }; let len = rng.range(1, 900) as usize; let class = rng.below(5);
            files.insert(at, F { name: n, data: content(rng, len, class), method: *rng.pick(methods), enc: 0 }); }
    }
    // one case in three carries a sectored file that is ALMOST incompressible: random sectors, one of them ending in a short
    // run of zeros (4..128 bytes) - a sector shrinks, the file as a whole hardly does: whatever layout the writer falls back
    // to has to be the one its flags announce
    if rng.chance(1, 3) {
        let m = *rng.pick(&[flags::ZLIB, flags::SPARSE, flags::BZIP2, flags::LZMA]);
        let nsec = rng.range(2, 6) as usize;
        let cut = if rng.chance(1, 2) { 0 } else { rng.range(1, ssz as u64 - 1) as usize };
        let mut d = rng.bytes(nsec * ssz - cut);
        for b in d.iter_mut() { if *b == 0 { *b = 1; } }
        let j = rng.below(nsec as u64) as usize; let z = *rng.pick(&[4usize, 8, 12, 16, 20, 24, 28, 40, 64, 72, 80, 96, 128]);
        let end = ((j + 1) * ssz).min(d.len()); for b in &mut d[end.saturating_sub(z.min(ssz - 1))..end] { *b = 0; }
        files.push(F { name: "edge\\barely.bin".into(), data: d, method: m, enc: rng.below(3) as u8 });
    }
    // one case in three carries the sparse codec's literal-run boundaries: stretches without zero runs of exactly 127..130,
    // 255..258, 385 bytes between runs of zeros, as a single unit and across sectors
    if rng.chance(1, 3) {
        let mut d = vec![];
        for _ in 0..rng.range(1, 5) {
            d.extend(std::iter::repeat(0u8).take(rng.range(3, 40) as usize));
            let l = *rng.pick(&[127usize, 128, 129, 129, 130, 255, 256, 257, 257, 258, 385, 1, 2]);
            d.extend((0..l).map(|_| (rng.next() as u8) | 1));
        }
        if rng.chance(1, 2) { d.extend(std::iter::repeat(0u8).take(rng.range(3, 200) as usize)); }
        files.push(F { name: "edge\\runs.bin".into(), data: d, method: flags::SPARSE, enc: rng.below(3) as u8 });
    }
    // one case in four carries store-raw boundary units: as single-unit files and as the middle sector of a sectored file
    if rng.chance(1, 4) {
        let m = *rng.pick(&[flags::ZLIB, flags::BZIP2, flags::LZMA, flags::SPARSE]);
        let n = *rng.pick(&[64usize, 96, 150, 200]).min(&ssz);
        for (k, d) in break_even(rng, n, m).into_iter().enumerate() {
            files.push(F { name: format!("edge\\su{k}.bin"), data: d.clone(), method: m, enc: 0 });
            if n == ssz { let mut big = content(rng, ssz, 4); big.extend_from_slice(&d); big.extend(content(rng, ssz / 2 + 1, 4)); files.push(F { name: format!("edge\\mid{k}.bin"), data: big, method: m, enc: rng.below(3) as u8 }); }
        }
    }
    (cfg, files)
}

pub fn build(cfg: &Cfg, files: &[F], path: &std::path::Path) -> wow_mpq::Result<()> {
    let mut b = ArchiveBuilder::new().version(VERS[cfg.ver]).block_size(cfg.shift).generate_crcs(cfg.crc)
        .listfile_option(if cfg.listfile { ListfileOption::Generate } else { ListfileOption::None })
        .attributes_option(match cfg.attrs { 1 => AttributesOption::GenerateCrc32, 2 => AttributesOption::GenerateFull, _ => AttributesOption::None })
        .compress_tables(cfg.table_comp);
    for f in files {
        b = match f.enc { 0 => b.add_file_data_with_options(f.data.clone(), &f.name, f.method, false, 0),
            1 => b.add_file_data_with_encryption(f.data.clone(), &f.name, f.method, false, 0),
            _ => b.add_file_data_with_encryption(f.data.clone(), &f.name, f.method, true, 0) };
    }
    b.build(path)
}

/// the stored form of every unit of a file, computed with the public compressor (the codec table for the model)
pub fn units(f: &F, ssz: usize) -> Vec<Vec<u8>> {
    let chunks: Vec<&[u8]> = if f.data.len() <= ssz { vec![&f.data[..]] } else { f.data.chunks(ssz).collect() };
    chunks.iter().map(|c| if f.method != 0 && !c.is_empty() { compress(c, f.method).unwrap_or_else(|_| c.to_vec()) } else { c.to_vec() }).collect()
}

fn classify(cfg: &Cfg, f: &F) -> String {
    let ssz = 512usize << cfg.shift;
    let us = units(f, ssz);
    let multi = f.data.len() > ssz;
    let any_comp = us.iter().zip(if multi { f.data.chunks(ssz).collect::<Vec<_>>() } else { vec![&f.data[..]] }).any(|(u, c)| u.len() < c.len());
    format!("{}-{}-{}", if multi { "sectored" } else { "single" }, if any_comp { "compressed" } else { "raw" }, ["plain", "enc", "fixkey"][f.enc as usize])
}

pub fn run(ctx: &mut Ctx) {
    let dir = tempfile::tempdir().expect("tmp");
    let _ = std::fs::remove_file(ctx.out.dir.join("mpqwrite-requests.txt"));
    let n = if ctx.thorough { 2500 } else { 140 };
    for ci in 0..n {
        let mut rng = ctx.rng.clone();
        let (cfg, files) = gen_case(&mut rng, true);
        ctx.rng = rng;
        let ssz = 512usize << cfg.shift;
        let path = dir.path().join(format!("a{ci}.mpq"));
        let desc = format!("ver=V{} shift={} crc={} attrs={} listfile={} tablecomp={}", cfg.ver + 1, cfg.shift, cfg.crc, cfg.attrs, cfg.listfile, cfg.table_comp);
        match std::panic::catch_unwind(|| build(&cfg, &files, &path)) {
            Err(_) => { ctx.out.oracle(false, "build-panics", &desc); continue; }
            Ok(Err(e)) => { ctx.out.stat("c01.build_error"); ctx.out.known("build-error", &format!("{desc}: {e}")); continue; } // "either reports an error…"
            Ok(Ok(())) => {}
        }
        ctx.out.stat(&format!("c01.V{}", cfg.ver + 1));
        let bytes = std::fs::read(&path).unwrap_or_default();
        let mut a = match Archive::open(&path) { Ok(a) => a, Err(e) => { ctx.out.oracle(false, "built-archive-does-not-open", &format!("{desc}: {e}")); continue; } };
        header_cases(ctx, &cfg, &bytes, &desc);
        // codec table for the model: stored unit -> plain unit
        let small = bytes.len() < 120_000;
        if small { ctx.out.case("codecreset", "ok"); }
        for f in &files {
            let cls = classify(&cfg, f);
            ctx.out.stat(&format!("c01.file.{cls}"));
            let fdesc = format!("{desc} file={} len={} method={:#x} enc={} [{}]", f.name, f.data.len(), f.method, f.enc, cls);
            if small {
                let chunks: Vec<&[u8]> = if f.data.len() <= ssz { vec![&f.data[..]] } else { f.data.chunks(ssz).collect() };
                for (u, c) in units(f, ssz).iter().zip(chunks) { if u.len() < c.len() { ctx.out.case(&format!("codec {} {}", canon_rle(u), canon_rle(c)), "ok"); } }
            }
            // (I) the property on the implementation: every spelling reads back bit-identically
            let mut rng = ctx.rng.clone();
            for sp in spellings(&mut rng, &f.name) {
                let got = std::panic::catch_unwind(std::panic::AssertUnwindSafe(|| a.read_file(&sp)));
                let tag_base = if f.method == flags::PKWARE { "pkware" } else { "" };
                match got {
                    Err(_) => ctx.out.oracle(false, &format!("read-panics{tag_base}"), &fdesc),
                    Ok(Ok(d)) => { let ok = d == f.data;
                        ctx.out.oracle(ok, &format!("roundtrip-differs-{cls}"), &format!("{fdesc} spelling={sp}: got {} bytes", d.len()));
                        if ok && f.data.len() > ssz { ctx.out.nontrivial(fdesc.as_bytes()); } }
                    Ok(Err(e)) => { let es = e.to_string();
                        let tag = if es.contains("Compression bomb") { "own-output-rejected-by-ratio-limit".to_string() } else { format!("read-error-{cls}") };
                        ctx.out.oracle(false, &tag, &format!("{fdesc} spelling={sp}: {es}")); }
                }
            }
            ctx.rng = rng;
            // (M-a) the Lean reader on the Rust-built bytes (V1–V4 all carry classic tables)
            if small && !cfg.table_comp {
                let imp = match a.read_file(&f.name) { Ok(d) => format!("ok {}", canon_rle(&d)), Err(e) => if e.to_string().contains("Compression bomb") { "err bomb".to_string() } else { format!("err {e}") } };
                ctx.out.case(&format!("mpqread code {} {}", canon_rle(&bytes), hex(f.name.as_bytes())), &imp);
            }
            // sizes reported by find_file
            if let Ok(Some(info)) = a.find_file(&f.name) { ctx.out.oracle(info.file_size == f.data.len() as u64, "reported-size-differs", &fdesc); }
            else { ctx.out.oracle(false, "added-file-not-found", &fdesc); }
        }
        // V3/V4: the extended tables, when the archive carries and the reader loads them, resolve every added name too
        // (the hash-entry table finds it, the block-entry table confirms its name hash) - the classic tables are not
        // the only way in
        if cfg.ver >= 2 {
            match (a.het_table(), a.bet_table()) {
                (Some(het), Some(bet)) => {
                    ctx.out.stat("c01.extended_tables.loaded");
                    bet_cases(ctx, &a);
                    for f in &files {
                        let cands = het.find_file_with_collision_info(&f.name).1;
                        if cands.is_empty() { ctx.out.oracle(false, "extended-table-lookup-misses-added-file", &format!("{desc} file={}", f.name)); }
                        else { ctx.out.oracle(cands.iter().any(|c| bet.verify_file_hash(*c, &f.name)), "extended-table-name-hash-not-confirmed", &format!("{desc} file={} candidates={cands:?}", f.name)); }
                    }
                    het_cases(ctx, &a, &files.iter().map(|f| f.name.clone()).collect::<Vec<_>>(), cfg.attrs != 0, cfg.listfile);
                }
                _ => ctx.out.stat("c01.extended_tables.not_loaded"),
            }
        }
        // never-added names are not found
        for nm in ["never\\added.txt", "Data\\File0.tx", "b.bin2", "(signature)"] {
            let r = a.find_file(nm);
            ctx.out.oracle(matches!(r, Ok(None)), "never-added-name-resolves", &format!("{desc}: {nm} -> {:?}", r.map(|o| o.map(|i| i.file_size))));
            if small && !cfg.table_comp { ctx.out.case(&format!("mpqread code {} {}", canon_rle(&bytes), hex(nm.as_bytes())), "err notfound"); }
        }
        // listing = added names + special files, sizes = content lengths
        if cfg.listfile {
            match a.list() { Ok(l) => {
                let mut got: Vec<(String, u64)> = l.iter().filter(|e| !e.name.starts_with('(')).map(|e| (e.name.clone(), e.size)).collect(); got.sort();
                let mut want: Vec<(String, u64)> = files.iter().map(|f| (f.name.clone(), f.data.len() as u64)).collect(); want.sort();
                ctx.out.oracle(got == want, "listing-differs", &format!("{desc}: {:?} vs {:?}", got, want));
                let specials: Vec<String> = l.iter().filter(|e| e.name.starts_with('(')).map(|e| e.name.clone()).collect();
                ctx.out.oracle(specials.iter().all(|s| s == "(listfile)" || s == "(attributes)" || s == "(signature)"), "listing-has-unknown-special", &format!("{desc}: {:?}", specials));
            } Err(e) => ctx.out.oracle(false, "listing-fails", &format!("{desc}: {e}")) }
        }
        drop(a);
        // (M-b) the Lean writer's archive read by Rust (classic layout, V1/V2)
        if cfg.ver < 2 && files.iter().map(|f| f.data.len()).sum::<usize>() < 40_000 {
            let hs = ((files.len() * 2).max(4)).next_power_of_two();
            let specs: Vec<String> = files.iter().map(|f| format!("{}|{}|{}|{}", hex(f.name.as_bytes()), f.enc, canon_rle(&f.data),
                { let us = units(f, ssz); if us.is_empty() { "-".to_string() } else { us.iter().map(|u| canon_rle(u)).collect::<Vec<_>>().join(",") } })).collect();
            // the answer is produced later by the model; here we register a deferred check: the harness cannot run the
            // model itself, so direction (b) is driven from python (tools/drivers.py:c01_write_driver) using this request file
            let req = format!("mpqwrite code {} {} {} {}", cfg.ver, cfg.shift, hs, specs.join(" "));
            let exp: Vec<String> = files.iter().map(|f| format!("{}={}", hex(f.name.as_bytes()), canon_rle(&f.data))).collect();
            use std::io::Write;
            if let Ok(mut fh) = std::fs::OpenOptions::new().create(true).append(true).open(ctx.out.dir.join("mpqwrite-requests.txt")) { let _ = writeln!(fh, "{req}\t{}", exp.join(" ")); }
        }
        let _ = std::fs::remove_file(&path);
    }
    // large members: the extended block-entry table packs position / size / stored size / flag index into one bit string per
    // file whose width grows with the archive (over 64 bits past about 2 MB): every width is built, read back, and each
    // extended entry is compared with the classic block entry of the same file
    for (li, big) in [1usize << 17, (1 << 18) + 3, (1 << 19) + 5, (1 << 20) + 1, (1 << 21) + 3, 3_000_000].into_iter().enumerate() {
        if !ctx.thorough && li % 2 == 0 && li != 4 { continue; }
        for ver in 0..4usize {
            if !ctx.thorough && ver == 1 { continue; }
            let mut rng = Rng::new(0xB16 + li as u64 * 7 + ver as u64);
            let cfg = Cfg { ver, shift: 3, crc: li % 2 == 1, attrs: (li % 3) as u8, listfile: true, table_comp: false };
            let files = vec![
                F { name: "Large\\stored.bin".into(), data: content(&mut rng, big, 0), method: 0, enc: 0 },
                F { name: "Large\\packed.bin".into(), data: content(&mut rng, big / 2 + 11, 3), method: flags::ZLIB, enc: (li % 3) as u8 },
                F { name: "Large\\tiny.txt".into(), data: b"after the large members".to_vec(), method: flags::ZLIB, enc: 0 },
                F { name: "Large\\empty.bin".into(), data: vec![], method: 0, enc: 0 },
            ];
            let desc = format!("large member {big} bytes ver=V{} crc={} attrs={}", ver + 1, cfg.crc, cfg.attrs);
            let path = dir.path().join(format!("large{li}-{ver}.mpq"));
            match std::panic::catch_unwind(|| build(&cfg, &files, &path)) {
                Err(_) => { ctx.out.oracle(false, "build-panics", &desc); continue; }
                Ok(Err(e)) => { ctx.out.oracle(false, "well-formed-content-rejected-by-builder", &format!("{desc}: {e}")); continue; }
                Ok(Ok(())) => {}
            }
            ctx.out.stat(&format!("c01.large.V{}", ver + 1));
            let mut a = match Archive::open(&path) { Ok(a) => a, Err(e) => { ctx.out.oracle(false, "built-archive-does-not-open", &format!("{desc}: {e}")); continue; } };
            for f in &files {
                match std::panic::catch_unwind(std::panic::AssertUnwindSafe(|| a.read_file(&f.name.to_ascii_uppercase().replace('\\', "/")))) {
                    Err(_) => ctx.out.oracle(false, "read-panics", &format!("{desc} file={}", f.name)),
                    Ok(Ok(d)) => { let ok = d == f.data; ctx.out.oracle(ok, "roundtrip-differs-large", &format!("{desc} file={}: got {} bytes", f.name, d.len())); if ok { ctx.out.nontrivial(desc.as_bytes()); } }
                    Ok(Err(e)) => ctx.out.oracle(false, "read-error-large", &format!("{desc} file={}: {e}", f.name)),
                }
            }
            if ver >= 2 { bet_cases(ctx, &a); }
            if ver >= 2 {
                match (a.het_table(), a.bet_table()) {
                    (Some(het), Some(bet)) => for f in &files {
                        let classic = a.find_file(&f.name).ok().flatten();
                        let cands = het.find_file_with_collision_info(&f.name).1;
                        match (cands.iter().copied().find(|c| bet.verify_file_hash(*c, &f.name)).or(cands.first().copied()), classic) {
                            (Some(ix), Some(ci)) => {
                                ctx.out.oracle(bet.verify_file_hash(ix, &f.name), "extended-table-name-hash-not-confirmed", &format!("{desc} file={} index={ix}", f.name));
                                match bet.get_file_info(ix) {
                                    Some(bi) => ctx.out.oracle(bi.file_pos == ci.file_pos && bi.file_size == ci.file_size && bi.compressed_size == ci.compressed_size && bi.flags == ci.flags,
                                        "extended-table-entry-differs-from-block-entry", &format!("{desc} file={}: extended (pos {}, size {}, stored {}, flags {:#x}) vs classic (pos {}, size {}, stored {}, flags {:#x})",
                                            f.name, bi.file_pos, bi.file_size, bi.compressed_size, bi.flags, ci.file_pos, ci.file_size, ci.compressed_size, ci.flags)),
                                    None => ctx.out.oracle(false, "extended-table-entry-unreadable", &format!("{desc} file={} index={ix}", f.name)),
                                }
                            }
                            _ => ctx.out.oracle(false, "extended-table-lookup-misses-added-file", &format!("{desc} file={}", f.name)),
                        }
                    },
                    _ => ctx.out.oracle(false, "extended-tables-not-loaded", &desc),
                }
            }
            drop(a);
            let _ = std::fs::remove_file(&path);
        }
    }
    bet_reader_cases(ctx, if ctx.thorough { 4000 } else { 400 });
    // many reads in one process: every archive stands alone, nothing the reader learnt or spent on earlier files
    // two added names that are ONE name to the archive (they differ only in ASCII case and slash direction): "either reports an
    // error or ... every added file reads back bit-identically" - the build must refuse, it cannot honour both
    for (vi, a, b) in [(0usize, "Dir\\File.txt", "dir/FILE.TXT"), (1, "Interface\\Icons\\Zap.blp", "INTERFACE\\ICONS\\ZAP.BLP"), (3, "readme.txt", "ReadMe.TXT"), (2, "a\\b\\c.dat", "A/B/C.DAT")] {
        let path = dir.path().join(format!("dup{vi}.mpq"));
        let (da, db) = (b"first content".to_vec(), b"second, different content".to_vec());
        let built = std::panic::catch_unwind(|| ArchiveBuilder::new().version(VERS[vi]).listfile_option(ListfileOption::Generate)
            .add_file_data(da.clone(), a).add_file_data(b"between".to_vec(), "other.bin").add_file_data(db.clone(), b).build(&path));
        match built {
            Err(_) => ctx.out.oracle(false, "build-panics", &format!("names {a} and {b}")),
            Ok(Err(_)) => { ctx.out.oracle(true, "", ""); ctx.out.stat("c01.case_duplicate.refused"); }
            Ok(Ok(())) => {
                let got = Archive::open(&path).and_then(|mut x| Ok((x.read_file(a)?, x.read_file(b)?)));
                let ok = matches!(&got, Ok((x, y)) if *x == da && *y == db);
                ctx.out.oracle(ok, "case-duplicate-accepted", &format!("V{}: names {a} and {b} (one name to the archive) were both accepted; reading them back gives {:?}", vi + 1, got.as_ref().map(|(x, y)| (String::from_utf8_lossy(x).to_string(), String::from_utf8_lossy(y).to_string())).map_err(|e| e.to_string())));
                ctx.out.stat("c01.case_duplicate.accepted");
            }
        }
    }

    // (budgets, caches) may make a later, well-formed file unreadable - more than 1 GiB is read back in total
    {
        let path = dir.path().join("soak.mpq");
        let mut data = vec![0u8; 8 << 20];
        for (i, b) in data.iter_mut().enumerate() { if i % 4096 < 48 { *b = (i / 4096 % 251) as u8 + 1; } }
        let built = ArchiveBuilder::new().version(VERS[1]).block_size(8).listfile_option(ListfileOption::Generate)
            .add_file_data_with_options(data.clone(), "soak\\big.bin", flags::SPARSE, false, 0)
            .add_file_data_with_options(data[..300_000].to_vec(), "soak\\small.bin", flags::ZLIB, false, 0).build(&path);
        if built.is_ok() {
            let rounds = 136;
            let mut bad = None;
            for r in 0..rounds {
                match Archive::open(&path).and_then(|mut a| { let x = a.read_file("soak\\big.bin")?; let y = a.read_file("SOAK/small.bin")?; Ok((x, y)) }) {
                    Ok((x, y)) => if x != data || y != data[..300_000] { bad = Some(format!("round {r}: content differs")); break; },
                    Err(e) => { bad = Some(format!("round {r} ({} MiB read back so far): {e}", r * 8)); break; }
                }
            }
            ctx.out.oracle(bad.is_none(), "well-formed-archive-unreadable-after-many-reads", &format!("8 MiB sparse + 300 KB zlib file read {rounds} times in one process: {}", bad.unwrap_or_default()));
            ctx.out.stat("c01.soak");
        } else { ctx.out.stat("c01.soak_build_failed"); }
    }
}

/// correspondence of the extended block table with Model.C01Bet: the builder's widths and packed table for the classic
/// block entries, and the reader's view of every row
pub fn bet_cases(ctx: &mut Ctx, a: &Archive) {
    let (Some(bet), Some(bt)) = (a.bet_table(), a.block_table()) else { return; };
    let h = &bet.header;
    let n = h.file_count as usize;
    if n == 0 || n > bt.entries().len() || bet.file_table.len() > 6000 { return; }
    let rows: Vec<String> = bt.entries()[..n].iter().map(|e| format!("{},{},{},{}", e.file_pos, e.file_size, e.compressed_size, bet.file_flags.iter().position(|f| *f == e.flags).unwrap_or(0))).collect();
    let (w0, w1, w2, w3, entry_bits) = (h.bit_count_file_pos, h.bit_count_file_size, h.bit_count_cmp_size, h.bit_count_flag_index, h.table_entry_size);
    let lay = format!("{w0},{w1},{w2},{w3}");
    let table = if bet.file_table.is_empty() { "-".to_string() } else { hex(&bet.file_table) };
    ctx.out.case(&format!("c01bet {} {}", bet.file_flags.len(), rows.join(";")), &format!("{lay} {table}"));
    for i in 0..n.min(12) {
        let imp = match bet.get_file_info(i as u32) { Some(x) => format!("{},{},{},{}", x.file_pos, x.file_size, x.compressed_size, bet.file_flags.iter().position(|f| *f == x.flags).unwrap_or(0)), None => "none".into() };
        ctx.out.case(&format!("c01betrow {lay} {table} {i}"), &imp);
    }
    ctx.out.stat(&format!("c01.bet.entry_bits.{}", match entry_bits { 0..=56 => "upto56", 57..=64 => "57to64", _ => "over64" }));
}

/// the reader on arbitrary tables: any widths (1..64 bits per column), any bytes, rows inside and outside the table
pub fn bet_reader_cases(ctx: &mut Ctx, count: usize) {
    use wow_mpq::tables::{BetHeader, BetTable};
    for k in 0..count {
        let rng = &mut ctx.rng;
        let w: Vec<u32> = (0..4).map(|j| match (k + j) % 7 { 0 => rng.range(1, 8) as u32, 1 => rng.range(25, 33) as u32, 2 => rng.range(50, 65) as u32, 3 => 0, _ => rng.range(1, 40) as u32 }).collect();
        let entry = w.iter().sum::<u32>();
        let len = *rng.pick(&[0usize, 1, 7, 8, 9, 16, 24, 40]);
        let table = rng.bytes(len);
        let nfl = *rng.pick(&[1u32, 2, 4, 1000]);
        let header = BetHeader { table_size: 0, file_count: u32::MAX, unknown_08: 0x10, table_entry_size: entry, bit_index_file_pos: 0, bit_index_file_size: w[0], bit_index_cmp_size: w[0] + w[1],
            bit_index_flag_index: w[0] + w[1] + w[2], bit_index_unknown: entry, bit_count_file_pos: w[0], bit_count_file_size: w[1], bit_count_cmp_size: w[2], bit_count_flag_index: w[3], bit_count_unknown: 0,
            total_bet_hash_size: 0, bet_hash_size_extra: 0, bet_hash_size: 0, bet_hash_array_size: 0, flag_count: nfl };
        let bet = BetTable { header, file_flags: (0..nfl).collect(), file_table: table.clone(), bet_hashes: vec![] };
        for i in [0u32, 1, 2, 5] {
            let imp = match std::panic::catch_unwind(std::panic::AssertUnwindSafe(|| bet.get_file_info(i))) { Err(_) => "panic".to_string(), Ok(None) => "none".into(), Ok(Some(x)) => format!("{},{},{},{}", x.file_pos, x.file_size, x.compressed_size, x.flags) };
            ctx.out.case(&format!("c01betrow {},{},{},{} {} {i} {nfl}", w[0], w[1], w[2], w[3], if table.is_empty() { "-".to_string() } else { hex(&table) }), &imp);
        }
    }
}

/// correspondence of the extended hash table with Model.C01Het: the slot bytes and the packed index array for the files'
/// 64-bit name hashes (in block order: added files, then the generated special files), and the candidates / confirmed
/// index of lookups of added and never-added names
pub fn het_cases(ctx: &mut Ctx, a: &Archive, names: &[String], attrs: bool, listfile: bool) {
    let (Some(het), Some(bet)) = (a.het_table(), a.bet_table()) else { return; };
    let n = het.header.max_file_count as usize;
    // block order: the added files, (listfile), (attributes)
    let mut order: Vec<String> = names.to_vec();
    if listfile { order.push("(listfile)".into()); }
    if attrs { order.push("(attributes)".into()); }
    if order.len() != n || n > 40 { ctx.out.stat("c01.het.order_unknown"); return; }
    // the model needs the insertion order to be the block order: confirm with the block-entry table's own hashes
    let full = |s: &str| wow_mpq::crypto::het_hash(s, 64).0;
    if !order.iter().enumerate().all(|(i, s)| bet.bet_hashes.get(i) == Some(&full(s))) { ctx.out.stat("c01.het.order_differs"); return; }
    let hs: Vec<String> = order.iter().map(|s| full(s).to_string()).collect();
    let hs = hs.join(",");
    ctx.out.case(&format!("c01het {hs}"), &format!("{} {}", hex(&het.hash_table), hex(&het.file_indices)));
    let mut queries: Vec<String> = order.clone();
    queries.extend(["never\\added.txt".to_string(), "hx\\f50.dat".into(), "HX/F471.DAT".into(), "zz".into()]);
    for q in queries.iter().take(14) {
        let cands = het.find_file_with_collision_info(q).1;
        let res = cands.iter().copied().find(|c| bet.verify_file_hash(*c, q));
        ctx.out.case(&format!("c01hetfind {hs} {}", full(q)), &format!("{} -> {}", cands.iter().map(|c| c.to_string()).collect::<Vec<_>>().join(","), res.map(|r| r.to_string()).unwrap_or("none".into())));
        // (I) through the extended tables alone: an added name resolves to its own block, a never-added name to none
        let want = order.iter().position(|s| s.eq_ignore_ascii_case(&q.replace('/', "\\")));
        ctx.out.oracle(res.map(|r| r as usize) == want, "extended-lookup-resolves-wrongly", &format!("{q}: candidates {cands:?}, confirmed {res:?}, block {want:?}"));
    }
    ctx.out.stat("c01.het.modelled");
}

/// view of MpqHeader::read on `bytes` in the notation of Model.C01Header (show_)
pub fn header_view(bytes: &[u8]) -> String {
    let mut c = std::io::Cursor::new(bytes);
    match std::panic::catch_unwind(move || wow_mpq::MpqHeader::read(&mut c)) {
        Err(_) => "panic".into(),
        Ok(Err(wow_mpq::Error::Io(_))) => "err io".into(),
        Ok(Err(wow_mpq::Error::UnsupportedVersion(_))) => "err ver".into(),
        Ok(Err(_)) => "err fmt".into(),
        Ok(Ok(h)) => {
            let le = |d: &[u8; 16]| { let mut v = 0u128; for (i, b) in d.iter().enumerate() { v |= (*b as u128) << (8 * i); } v.to_string() };
            let mut v: Vec<String> = vec![h.header_size.to_string(), h.archive_size.to_string(), (h.format_version as u16).to_string(), h.block_size.to_string(),
                h.hash_table_pos.to_string(), h.block_table_pos.to_string(), h.hash_table_size.to_string(), h.block_table_size.to_string()];
            if let (Some(a), Some(b), Some(c)) = (h.hi_block_table_pos, h.hash_table_pos_hi, h.block_table_pos_hi) { v.push(a.to_string()); v.push(b.to_string()); v.push(c.to_string()); }
            if let (Some(a), Some(b), Some(c)) = (h.archive_size_64, h.bet_table_pos, h.het_table_pos) { v.push(a.to_string()); v.push(b.to_string()); v.push(c.to_string()); }
            if let Some(d) = &h.v4_data {
                for x in [d.hash_table_size_64, d.block_table_size_64, d.hi_block_table_size_64, d.het_table_size_64, d.bet_table_size_64] { v.push(x.to_string()); }
                v.push(d.raw_chunk_size.to_string());
                for m in [&d.md5_block_table, &d.md5_hash_table, &d.md5_hi_block_table, &d.md5_bet_table, &d.md5_het_table, &d.md5_mpq_header] { v.push(le(m)); }
            }
            format!("ok {} | {} {} {}", v.join(" "), h.get_hash_table_pos(), h.get_block_table_pos(), h.get_archive_size())
        }
    }
}

/// Model.C01Header against MpqHeader::read: the header the builder wrote (with the fields it was asked for - oracle), every
/// header field replaced by boundary values, truncations at and around every field boundary
pub fn header_cases(ctx: &mut Ctx, cfg: &Cfg, bytes: &[u8], desc: &str) {
    let hb = &bytes[..bytes.len().min(240)];
    let imp = header_view(hb);
    ctx.out.case(&format!("c01hdr {}", hex(hb)), &imp);
    ctx.out.stat(&format!("c01.hdr.{}", imp.split(' ').take(2).collect::<Vec<_>>().join("_").replace(|c: char| c.is_ascii_digit(), "")));
    // oracle: what the builder was asked for is what its header says
    let toks: Vec<&str> = imp.split(' ').collect();
    if toks[0] == "ok" {
        let want_size = [32u32, 44, 68, 208][cfg.ver];
        let ok = toks[1] == want_size.to_string() && toks[3] == cfg.ver.to_string() && toks[4] == cfg.shift.to_string()
            && toks.last().map(|t| *t == bytes.len().to_string()).unwrap_or(false);
        ctx.out.oracle(ok, "built-header-field-differs", &format!("{desc}: header {imp}, file length {}", bytes.len()));
    } else { ctx.out.oracle(false, "built-header-not-accepted", &format!("{desc}: {imp}")); }
    // mutants: one in four archives (the header reader is cheap, the request lines are long)
    if ctx.rng.below(4) != 0 && !ctx.thorough { return; }
    let fields: &[(usize, usize)] = &[(0, 4), (4, 4), (8, 4), (12, 2), (14, 2), (16, 4), (20, 4), (24, 4), (28, 4), (32, 8), (40, 2), (42, 2), (44, 8), (52, 8), (60, 8), (68, 8), (108, 4), (112, 16)];
    let asz = u32::from_le_bytes([hb[8], hb[9], hb[10], hb[11]]) as u64;
    for &(off, w) in fields {
        if off + w > hb.len() { continue; }
        let vals: Vec<u64> = match off {
            4 => vec![0, 31, 32, 43, 44, 67, 68, 207, 208, 209, 1024, 1025, u32::MAX as u64],
            12 => vec![0, 1, 2, 3, 4, 5, 0xFFFF],
            14 => vec![0, 20, 21, 0xFFFF],
            8 => vec![0, 1, 0xFFFF_FFFF, asz / 2],
            16 | 20 => vec![0, asz.saturating_sub(1), asz, asz + 1, asz + 65536, 0xFFFF_FFF0, u32::MAX as u64],
            24 | 28 => vec![0, 1, 2, 3, 1 << 19, 1 << 20, 1_000_000, 1_000_001, 1 << 28, u32::MAX as u64],
            _ => vec![0, 1, u64::MAX],
        };
        for v in vals {
            let mut m = hb.to_vec();
            m[off..off + w].copy_from_slice(&(v as u128).to_le_bytes()[..w]);
            let imp = header_view(&m);
            ctx.out.case(&format!("c01hdr {}", hex(&m)), &imp);
            ctx.out.stat(&format!("c01.hdrmut.{}", imp.split(' ').take(2).collect::<Vec<_>>().join("_").replace(|c: char| c.is_ascii_digit(), "")));
        }
    }
    for cut in [0usize, 3, 4, 31, 32, 33, 43, 44, 45, 67, 68, 69, 207, 208] {
        if cut > hb.len() { continue; }
        let imp = header_view(&hb[..cut]);
        ctx.out.case(&format!("c01hdr {}", if cut == 0 { "-".to_string() } else { hex(&hb[..cut]) }), &imp);
        ctx.out.stat(&format!("c01.hdrcut.{}", imp.split(' ').take(2).collect::<Vec<_>>().join("_").replace(|c: char| c.is_ascii_digit(), "")));
    }
    // a V3 header that announces the V4 size (the reader then reads the V4 block) and a V4 header that announces less
    for (ver, size) in [(2u16, 208u32), (2, 300), (3, 68), (3, 207), (1, 208), (0, 44)] {
        let mut m = hb.to_vec(); m.resize(240, 0xA5);
        m[4..8].copy_from_slice(&size.to_le_bytes()); m[12..14].copy_from_slice(&ver.to_le_bytes());
        let imp = header_view(&m);
        ctx.out.case(&format!("c01hdr {}", hex(&m)), &imp);
    }
}
