//! C15 — WMO root and group files survive write→parse; header counts equal list lengths; string tables address the
//! right strings; second write is byte-identical; version conversion keeps representable content.
use crate::common::*;
use std::collections::HashMap;
use std::io::Cursor;
use wow_wmo::{BoundingBox, Color, TexCoord, Vec3, WmoBatch, WmoConverter, WmoDoodadDef, WmoDoodadSet, WmoFlags, WmoGroup, WmoGroupFlags, WmoGroupHeader, WmoGroupInfo, WmoHeader, WmoLight, WmoLightProperties, WmoLightType,
    WmoMaterial, WmoMaterialFlags, WmoParser, WmoPortal, WmoPortalReference, WmoRoot, WmoVersion, WmoWriter};

const VERSIONS: [WmoVersion; 5] = [WmoVersion::Classic, WmoVersion::Tbc, WmoVersion::Wotlk, WmoVersion::Cataclysm, WmoVersion::Mop];

fn f(rng: &mut Rng) -> f32 { (rng.below(100_000) as f32) / 32.0 - 1500.0 }
fn v3(rng: &mut Rng) -> Vec3 { Vec3 { x: f(rng), y: f(rng), z: f(rng) } }
fn col(rng: &mut Rng) -> Color { Color { r: rng.next() as u8, g: rng.next() as u8, b: rng.next() as u8, a: rng.next() as u8 } }
fn bb(rng: &mut Rng) -> BoundingBox { BoundingBox { min: v3(rng), max: v3(rng) } }
fn count(rng: &mut Rng) -> usize { match rng.below(4) { 0 => 0, 1 => 1, _ => rng.range(2, 5) as usize } }

pub fn gen_root(rng: &mut Rng, ver: WmoVersion, arbitrary_doodad_offsets: bool) -> WmoRoot {
    let names = ["hall", "hall_a", "hallway", "h", "antechamber", "hall"];
    let ng = count(rng);
    let groups: Vec<WmoGroupInfo> = (0..ng).map(|i| WmoGroupInfo { flags: WmoGroupFlags::from_bits_truncate(rng.u32() & 0x3FFFF), bounding_box: bb(rng), name: format!("{}{}", names[(i + rng.below(3) as usize) % names.len()], if rng.chance(1, 2) { format!("_{i}") } else { String::new() }) }).collect();
    let textures: Vec<String> = (0..count(rng)).map(|i| format!("dungeons\\textures\\{}{}.blp", ["wall", "wall_s", "floor", "wa"][i % 4], i)).collect();
    let mut tex_offsets = vec![]; let mut o = 0u32; for t in &textures { tex_offsets.push(o); o += t.len() as u32 + 1; }
    let materials: Vec<WmoMaterial> = (0..if textures.is_empty() { 0 } else { count(rng) }).map(|_| WmoMaterial { flags: WmoMaterialFlags::from_bits_truncate(rng.u32() & 0xFFF), shader: rng.below(7) as u32, blend_mode: rng.below(4) as u32,
        texture1: *rng.pick(&tex_offsets), emissive_color: col(rng), sidn_color: col(rng), framebuffer_blend: Color::default(), texture2: *rng.pick(&tex_offsets), diffuse_color: col(rng), ground_type: rng.below(9) as u32 }).collect();
    let portals: Vec<WmoPortal> = (0..count(rng)).map(|_| WmoPortal { vertices: (0..*rng.pick(&[4usize, 4, 4, 3, 5, 6, 2, 1, 0])).map(|_| v3(rng)).collect(), normal: v3(rng) }).collect();
    let portal_references: Vec<WmoPortalReference> = if portals.is_empty() { vec![] } else { (0..count(rng)).map(|_| WmoPortalReference { portal_index: rng.below(portals.len() as u64) as u16, group_index: rng.below(ng.max(1) as u64) as u16, side: *rng.pick(&[0u16, 1, 0xFFFF]) }).collect() };
    let visible_block_lists: Vec<Vec<u16>> = (0..count(rng)).map(|_| (0..*rng.pick(&[0usize, 0, 1, 3])).map(|_| rng.below(500) as u16).collect()).collect();
    let lights: Vec<WmoLight> = (0..count(rng)).map(|_| WmoLight { light_type: WmoLightType::Omni, position: v3(rng), color: col(rng), intensity: f(rng), rotation: [0.0, 0.0, 0.0, 1.0], attenuation_start: f(rng), attenuation_end: f(rng), use_attenuation: rng.chance(1, 2), properties: WmoLightProperties::Omni }).collect();
    let doodad_sets: Vec<WmoDoodadSet> = (0..count(rng)).map(|i| WmoDoodadSet { name: format!("Set_{}", ["$DefaultGlobal", "a", "furniture"][i % 3]), start_doodad: i as u32, n_doodads: rng.below(3) as u32 }).collect();
    // WmoRoot has no place for doodad model names: the writer names definition i "doodad_<name_offset>" and renumbers the
    // offsets. Offsets that are a fixed point of that renumbering survive a round trip; arbitrary ones do not (known finding).
    let mut fixed = vec![]; let mut o = 0u32; for _ in 0..8 { fixed.push(o); o += format!("doodad_{o}").len() as u32 + 1; }
    let nd = count(rng);
    let doodad_defs: Vec<WmoDoodadDef> = (0..nd).map(|i| WmoDoodadDef { name_offset: if arbitrary_doodad_offsets { rng.range(1, 64) as u32 } else { fixed[i] }, position: v3(rng), orientation: [f(rng), f(rng), f(rng), f(rng)], scale: f(rng), color: col(rng), set_index: 0 }).collect();
    WmoRoot { version: ver, header: WmoHeader { n_materials: materials.len() as u32, n_groups: groups.len() as u32, n_portals: portals.len() as u32, n_lights: lights.len() as u32, n_doodad_names: doodad_defs.len() as u32, n_doodad_defs: doodad_defs.len() as u32, n_doodad_sets: doodad_sets.len() as u32,
        flags: WmoFlags::from_bits_truncate(rng.u32() & 0x3DF), ambient_color: col(rng) },
        bounding_box: union_box(&groups), materials, groups, portals, portal_references, visible_block_lists, lights, doodad_defs, doodad_sets, textures, texture_offset_index_map: HashMap::new(), skybox: None, convex_volume_planes: None }
}

/// a consistent root's bounds are the union of its groups' bounds (what the parser reports)
fn union_box(gs: &[WmoGroupInfo]) -> BoundingBox {
    if gs.is_empty() { return BoundingBox { min: Vec3 { x: 0.0, y: 0.0, z: 0.0 }, max: Vec3 { x: 0.0, y: 0.0, z: 0.0 } }; }
    let mut b = BoundingBox { min: Vec3 { x: f32::MAX, y: f32::MAX, z: f32::MAX }, max: Vec3 { x: f32::MIN, y: f32::MIN, z: f32::MIN } };
    for g in gs { b.min.x = b.min.x.min(g.bounding_box.min.x); b.min.y = b.min.y.min(g.bounding_box.min.y); b.min.z = b.min.z.min(g.bounding_box.min.z); b.max.x = b.max.x.max(g.bounding_box.max.x); b.max.y = b.max.y.max(g.bounding_box.max.y); b.max.z = b.max.z.max(g.bounding_box.max.z); }
    b
}
fn fb(v: &Vec3) -> (u32, u32, u32) { (v.x.to_bits(), v.y.to_bits(), v.z.to_bits()) }
fn canon(r: &WmoRoot) -> Vec<(String, String)> {
    vec![
        ("materials".into(), format!("{:?}", r.materials.iter().map(|m| (m.flags.bits(), m.shader, m.blend_mode, m.texture1, m.texture2, m.ground_type, format!("{:?}{:?}{:?}", m.emissive_color, m.sidn_color, m.diffuse_color))).collect::<Vec<_>>())),
        ("groups".into(), format!("{:?}", r.groups.iter().map(|g| (g.flags.bits(), fb(&g.bounding_box.min), fb(&g.bounding_box.max), g.name.clone())).collect::<Vec<_>>())),
        ("portals".into(), format!("{:?}", r.portals.iter().map(|p| (p.vertices.iter().map(fb).collect::<Vec<_>>(), fb(&p.normal))).collect::<Vec<_>>())),
        ("portal references".into(), format!("{:?}", r.portal_references.iter().map(|p| (p.portal_index, p.group_index, p.side)).collect::<Vec<_>>())),
        ("visibility lists".into(), format!("{:?}", r.visible_block_lists)),
        ("lights".into(), format!("{:?}", r.lights.iter().map(|l| (l.light_type as u8, fb(&l.position), format!("{:?}", l.color), l.intensity.to_bits(), l.attenuation_start.to_bits(), l.attenuation_end.to_bits(), l.use_attenuation)).collect::<Vec<_>>())),
        ("doodad definitions".into(), format!("{:?}", r.doodad_defs.iter().map(|d| (d.name_offset, fb(&d.position), d.orientation.map(|x| x.to_bits()), d.scale.to_bits(), format!("{:?}", d.color))).collect::<Vec<_>>())),
        ("doodad sets".into(), format!("{:?}", r.doodad_sets.iter().map(|s| (s.name.clone(), s.start_doodad, s.n_doodads)).collect::<Vec<_>>())),
        ("textures".into(), format!("{:?}", r.textures)),
        ("bounds".into(), format!("{:?}{:?}", fb(&r.bounding_box.min), fb(&r.bounding_box.max))),
        ("header flags/colour".into(), format!("{:?}{:?}", r.header.flags.bits() & !0x20, r.header.ambient_color)),
    ]
}
fn counts_ok(r: &WmoRoot) -> Option<String> {
    let h = &r.header;
    for (n, c, l) in [("materials", h.n_materials, r.materials.len()), ("groups", h.n_groups, r.groups.len()), ("portals", h.n_portals, r.portals.len()), ("lights", h.n_lights, r.lights.len()), ("doodad defs", h.n_doodad_defs, r.doodad_defs.len()), ("doodad sets", h.n_doodad_sets, r.doodad_sets.len())] {
        if c as usize != l { return Some(format!("header says {c} {n}, list has {l}")); }
    }
    None
}

fn walk(bytes: &[u8], start: usize, end: usize) -> Option<Vec<(String, usize, usize)>> {
    let mut v = vec![]; let mut p = start;
    while p < end { if p + 8 > end { return None; } let n = u32::from_le_bytes([bytes[p + 4], bytes[p + 5], bytes[p + 6], bytes[p + 7]]) as usize; if p + 8 + n > end { return None; }
        v.push((String::from_utf8_lossy(&bytes[p..p + 4]).chars().rev().collect::<String>(), p, n)); p += 8 + n; }
    Some(v)
}

fn write_root(r: &WmoRoot, ver: WmoVersion) -> Result<Vec<u8>, String> { let mut c = Cursor::new(Vec::new()); match std::panic::catch_unwind(move || { WmoWriter::new().write_root(&mut c, r, ver).map(|_| c.into_inner()) }) { Ok(Ok(b)) => Ok(b), Ok(Err(e)) => Err(e.to_string()), Err(_) => Err("writer panics".into()) } }
fn parse_root(b: &[u8]) -> Result<WmoRoot, String> { let b = b.to_vec(); match std::panic::catch_unwind(move || WmoParser::new().parse_root(&mut Cursor::new(b))) { Ok(Ok(r)) => Ok(r), Ok(Err(e)) => Err(e.to_string()), Err(_) => Err("parser panics".into()) } }

pub fn gen_group(rng: &mut Rng) -> WmoGroup {
    let nv = count(rng) * 3;
    WmoGroup { header: WmoGroupHeader { flags: WmoGroupFlags::from_bits_truncate(rng.u32() & 0x3FFFF), bounding_box: bb(rng), name_offset: rng.below(40) as u32, group_index: rng.below(9) as u32 }, materials: vec![],
        vertices: (0..nv).map(|_| v3(rng)).collect(), normals: if rng.chance(2, 3) { (0..nv).map(|_| v3(rng)).collect() } else { vec![] }, tex_coords: (0..nv).map(|_| TexCoord { u: f(rng), v: f(rng) }).collect(),
        batches: (0..count(rng)).map(|_| WmoBatch { flags: [0; 10], material_id: rng.below(4) as u16, start_index: 0, count: if rng.chance(1, 5) { 0 } else { nv as u16 }, start_vertex: 0, end_vertex: nv.saturating_sub(1) as u16, use_large_material_id: false }).collect(),
        // index list longer than what the batches draw (collision-only triangles follow the rendered ones)
        indices: (0..nv + [0usize, 0, 3, 6, 9][rng.below(5) as usize]).map(|i| (i % nv.max(1)) as u16).collect(), vertex_colors: if rng.chance(1, 2) { Some((0..nv).map(|_| col(rng)).collect()) } else { None }, bsp_nodes: None, liquid: None,
        doodad_refs: if rng.chance(1, 2) { Some((0..count(rng)).map(|_| rng.below(30) as u16).collect()) } else { None } }
}

pub fn run(ctx: &mut Ctx) {
    let n = if ctx.thorough { 600 } else { 80 };
    for k in 0..n {
        let ver = VERSIONS[(k % 5) as usize];
        let arb = k % 8 == 7;
        let mut root = gen_root(&mut ctx.rng, ver, arb);
        // one root in four carries stale header counts (lists edited after the header was filled in, as an editor that only
        // touches the lists leaves it): the written header must describe the lists, not repeat the stale fields
        let stale = k % 4 == 2;
        if stale {
            let r = &mut ctx.rng;
            root.header.n_materials = r.below(7) as u32; root.header.n_groups = r.below(7) as u32; root.header.n_portals = r.below(7) as u32; root.header.n_lights = r.below(7) as u32;
            root.header.n_doodad_names = r.below(7) as u32; root.header.n_doodad_defs = r.below(7) as u32; root.header.n_doodad_sets = r.below(7) as u32;
            ctx.out.stat("c15.root.stale_header_counts");
        }
        let desc = format!("{}{ver:?} materials=", if stale { "stale-header-counts " } else { "" });
        let desc = desc + &format!("{} groups={:?} portals={} refs={} vis={:?} lights={} defs={} sets={} textures={}", root.materials.len(), root.groups.iter().map(|g| g.name.clone()).collect::<Vec<_>>(), root.portals.len(), root.portal_references.len(), root.visible_block_lists, root.lights.len(), root.doodad_defs.len(), root.doodad_sets.len(), root.textures.len());
        ctx.out.stat(&format!("c15.root.{ver:?}"));
        let bytes = match write_root(&root, ver) { Ok(b) => b, Err(e) => { ctx.out.oracle(false, "root-write-fails", &format!("{e} :: {desc}")); continue; } };
        let Some(top) = walk(&bytes, 0, bytes.len()) else { ctx.out.oracle(false, "root-framing-does-not-tile-file", &desc); continue; };
        let get = |id: &str| top.iter().find(|c| c.0 == id).map(|c| &bytes[c.1 + 8..c.1 + 8 + c.2]);
        let lay = top.iter().map(|c| format!("{}:{}", c.0, c.2)).collect::<Vec<_>>().join(",");
        if let Some(mohd) = get("MOHD") { ctx.out.case(&format!("c15root {lay} {}", hex(mohd)), "ok"); } else { ctx.out.oracle(false, "root-header-chunk-missing", &desc); continue; }
        // the header record through the generic record codec (Lib.Record): seven counts and the packed ambient colour, then (behind
        // the flags dword, which the writer adjusts per version) the bounding box by bit pattern
        if let Some(mohd) = get("MOHD") { if mohd.len() >= 60 {
            let c = &root.header.ambient_color;
            let v: Vec<u32> = vec![root.materials.len() as u32, root.groups.len() as u32, root.portals.len() as u32, root.lights.len() as u32, root.doodad_defs.len() as u32, root.doodad_defs.len() as u32, root.doodad_sets.len() as u32,
                (c.r as u32) << 16 | (c.g as u32) << 8 | c.b as u32 | (c.a as u32) << 24];
            ctx.out.case(&format!("rec 4,4,4,4,4,4,4,4 {}", v.iter().map(|x| x.to_string()).collect::<Vec<_>>().join(",")), &hex(&mohd[..32]));
            let bb = &root.bounding_box;
            let f: Vec<String> = [bb.min.x, bb.min.y, bb.min.z, bb.max.x, bb.max.y, bb.max.z].iter().map(|x| x.to_bits().to_string()).collect();
            ctx.out.case(&format!("rec 4,4,4,4,4,4 {}", f.join(",")), &hex(&mohd[36..60]));
            ctx.out.stat("c15.rec.mohd");
        } }
        if let (Some(mogn), Some(mogi)) = (get("MOGN"), get("MOGI")) {
            let offs: Vec<String> = mogi.chunks_exact(32).map(|e| u32::from_le_bytes([e[28], e[29], e[30], e[31]]).to_string()).collect();
            ctx.out.case(&format!("c15names {} {}", crate::c18_wdt::canon_rle(mogn), offs.join(",")), &root.groups.iter().map(|g| hex(g.name.as_bytes())).collect::<Vec<_>>().join(","));
        }
        if let (Some(movv), Some(movb)) = (get("MOVV"), get("MOVB")) {
            let offs: Vec<String> = movv.chunks_exact(4).map(|e| u32::from_le_bytes([e[0], e[1], e[2], e[3]]).to_string()).collect();
            ctx.out.case(&format!("c15vis {} {}", offs.join(","), crate::c18_wdt::canon_rle(movb)), &root.visible_block_lists.iter().map(|l| if l.is_empty() { "-".to_string() } else { l.iter().map(|x| x.to_string()).collect::<Vec<_>>().join(".") }).collect::<Vec<_>>().join(","));
        }
        let mut bad = false;
        match parse_root(&bytes) {
            Err(e) => { bad = true; ctx.out.oracle(false, "own-root-does-not-parse", &format!("{e} :: {desc}")); }
            Ok(p) => {
                for ((n, a), (_, b)) in canon(&root).iter().zip(canon(&p).iter()) { if a != b { bad = true; ctx.out.oracle(false, if arb && n == "doodad definitions" { "doodad-names-not-representable" } else { "parsed-root-content-differs" }, &format!("{n}: wrote {} parsed {} :: {desc}", &a[..a.len().min(160)], &b[..b.len().min(160)])); break; } }
                // the bounds stored in the header chunk are the object's (read from the bytes: the root parser re-derives its own)
                if let Some(pos) = bytes.windows(4).position(|w| w == b"DHOM") { if pos + 8 + 60 <= bytes.len() {
                    let rd = |o: usize| f32::from_le_bytes([bytes[pos + 8 + o], bytes[pos + 9 + o], bytes[pos + 10 + o], bytes[pos + 11 + o]]).to_bits();
                    let stored = [rd(36), rd(40), rd(44), rd(48), rd(52), rd(56)];
                    let want = [root.bounding_box.min.x.to_bits(), root.bounding_box.min.y.to_bits(), root.bounding_box.min.z.to_bits(), root.bounding_box.max.x.to_bits(), root.bounding_box.max.y.to_bits(), root.bounding_box.max.z.to_bits()];
                    if stored != want { bad = true; ctx.out.oracle(false, "header-bounds-differ-from-object", &format!("stored {:?} object {:?} :: {desc}", stored.map(f32::from_bits), want.map(f32::from_bits))); } } }
                if let Some(c) = counts_ok(&p) { bad = true; ctx.out.oracle(false, "header-count-differs-from-list", &format!("{c} :: {desc}")); }
                match write_root(&p, ver) { Ok(b2) => if b2 != bytes { bad = true; ctx.out.oracle(false, if arb && !root.doodad_defs.is_empty() { "doodad-names-not-representable" } else { "second-root-write-differs" }, &format!("{} vs {} bytes :: {desc}", b2.len(), bytes.len())); }, Err(e) => { bad = true; ctx.out.oracle(false, "second-root-write-fails", &format!("{e} :: {desc}")); } }
                // conversion: same version changes nothing; another version keeps everything representable in both
                let to = VERSIONS[((k / 5) % 5) as usize];
                let mut conv = p;
                let before = canon(&conv);
                match std::panic::catch_unwind(move || { let r = WmoConverter::new().convert_root(&mut conv, to); (conv, r) }) {
                    Ok((c2, Ok(()))) => { match write_root(&c2, to).and_then(|b| parse_root(&b)) {
                        Ok(p2) => { for ((n, a), (_, b)) in before.iter().zip(canon(&p2).iter()) { if a != b { bad = true; ctx.out.oracle(false, if arb && n == "doodad definitions" { "doodad-names-not-representable" } else { "conversion-loses-content" }, &format!("{ver:?}->{to:?} {n}: {} vs {} :: {desc}", &a[..a.len().min(120)], &b[..b.len().min(120)])); break; } } }
                        Err(e) => { bad = true; ctx.out.oracle(false, "converted-root-does-not-round-trip", &format!("{ver:?}->{to:?}: {e} :: {desc}")); } } }
                    Ok((_, Err(e))) => { ctx.out.stat("c15.convert_rejected"); ctx.out.known("convert-error", &format!("{e} :: {desc}")); }
                    Err(_) => { bad = true; ctx.out.oracle(false, "converter-panics", &format!("{ver:?}->{to:?} :: {desc}")); }
                }
            }
        }
        if !bad { ctx.out.oracle(true, "", ""); ctx.out.nontrivial(desc.as_bytes()); }
        // group file: MVER + one MOGP spanning the rest; sub-chunks tile it; element counts follow from chunk sizes
        let g = gen_group(&mut ctx.rng);
        let gdesc = format!("{ver:?} group vertices={} normals={} batches={} colours={:?} doodad_refs={:?}", g.vertices.len(), g.normals.len(), g.batches.len(), g.vertex_colors.as_ref().map(|c| c.len()), g.doodad_refs);
        let mut c = Cursor::new(Vec::new());
        let gb = match std::panic::catch_unwind(move || { WmoWriter::new().write_group(&mut c, &g, ver).map(|_| (c.into_inner(), g)) }) { Ok(Ok(x)) => x, _ => { ctx.out.oracle(false, "group-write-fails", &gdesc); continue; } };
        let (gbytes, g) = gb;
        let Some(gt) = walk(&gbytes, 0, gbytes.len()) else { ctx.out.oracle(false, "group-framing-does-not-tile-file", &gdesc); continue; };
        if gt.len() != 2 || gt[1].0 != "MOGP" { ctx.out.oracle(false, "group-chunk-does-not-span-file", &format!("{:?} :: {gdesc}", gt.iter().map(|c| c.0.clone()).collect::<Vec<_>>())); continue; }
        let Some(subs) = walk(&gbytes, gt[1].1 + 8 + 36, gbytes.len()) else { ctx.out.oracle(false, "group-sub-chunks-do-not-tile-chunk", &gdesc); continue; };
        let sl = if subs.is_empty() { "-".to_string() } else { subs.iter().map(|s| format!("{}:{}", s.0, s.2)).collect::<Vec<_>>().join(",") };
        ctx.out.case(&format!("c15group {sl}"), &format!("MOVT={} MOVI={} MONR={} MOTV={} MOCV={} MOBA={} MODR={}", g.vertices.len(), g.indices.len(), g.normals.len(), g.tex_coords.len(), g.vertex_colors.as_ref().map(|c| c.len()).unwrap_or(0), g.batches.len(), g.doodad_refs.as_ref().map(|c| c.len()).unwrap_or(0)));
        // (I) the element counts read straight from the sub-chunk sizes are the object's
        { let cnt = |id: &str, el: usize| subs.iter().find(|s| s.0 == id).map(|s| s.2 / el).unwrap_or(0);
          for (id, el, want) in [("MOVT", 12usize, g.vertices.len()), ("MOVI", 2, g.indices.len()), ("MONR", 12, g.normals.len()), ("MOTV", 8, g.tex_coords.len()), ("MOBA", 24, g.batches.len())] {
              ctx.out.oracle(cnt(id, el) == want, "group-list-not-written-in-full", &format!("{id}: {} elements in the file, {want} in the object :: {gdesc}", cnt(id, el))); } }
        // the crate's own group reader on the crate's own group writer's bytes
        let gb2 = gbytes.clone();
        match std::panic::catch_unwind(move || wow_wmo::parse_wmo(&mut Cursor::new(gb2))) {
            Ok(Ok(wow_wmo::ParsedWmo::Group(pg))) => {
                let same = pg.vertex_positions.len() == g.vertices.len() && pg.vertex_indices.len() == g.indices.len() && pg.vertex_normals.len() == g.normals.len() && pg.texture_coords.len() == g.tex_coords.len()
                    && pg.vertex_positions.iter().zip(g.vertices.iter()).all(|(a, b)| a.x.to_bits() == b.x.to_bits() && a.y.to_bits() == b.y.to_bits() && a.z.to_bits() == b.z.to_bits());
                ctx.out.oracle(same, "group-writer-output-not-readable-by-group-parser", &format!("parsed {} vertices / {} indices / {} normals :: {gdesc}", pg.vertex_positions.len(), pg.vertex_indices.len(), pg.vertex_normals.len()));
            }
            Ok(Ok(_)) => ctx.out.oracle(false, "group-writer-output-not-readable-by-group-parser", &format!("read as a root file :: {gdesc}")),
            Ok(Err(e)) => ctx.out.oracle(false, "group-writer-output-not-readable-by-group-parser", &format!("{e} :: {gdesc}")),
            Err(_) => ctx.out.oracle(false, "group-parser-panics-on-own-writer-output", &gdesc),
        }
        ctx.out.oracle(true, "", "");
    }
    // conversion of a group between every pair of versions: the flag word afterwards is the one the model assigns to the
    // target version (nothing representable in the target is dropped, nothing it does not know is kept)
    {
        let all = [WmoVersion::Classic, WmoVersion::Tbc, WmoVersion::Wotlk, WmoVersion::Cataclysm, WmoVersion::Mop, WmoVersion::Wod, WmoVersion::Legion, WmoVersion::Bfa];
        for (fi, from) in all.iter().enumerate() { for (ti, to) in all.iter().enumerate() {
            if fi == ti { continue; }
            for fl in [0x3FFFFu32, 0x2C000, 0x10000, 0x4001, 0x8008, 0x20040, ctx.rng.u32() & 0x3FFFF] {
                let mut g = gen_group(&mut ctx.rng);
                g.header.flags = WmoGroupFlags::from_bits_truncate(fl);
                let before = g.header.flags.bits();
                let (f2, t2) = (*from, *to);
                match std::panic::catch_unwind(move || { let r = WmoConverter::new().convert_group(&mut g, t2, f2); (g, r) }) {
                    Ok((g, Ok(()))) => { ctx.out.case(&format!("c15gflags {ti} {before}"), &g.header.flags.bits().to_string()); ctx.out.stat("c15.group_flags_conversion"); }
                    Ok((_, Err(e))) => ctx.out.known("convert-error", &format!("group {from:?}->{to:?}: {e}")),
                    Err(_) => ctx.out.oracle(false, "converter-panics", &format!("group {from:?}->{to:?} flags {fl:#x}")),
                }
            }
        } }
    }
}
