//! C08 — patch chain: ordering under any history, lookup = best version, listing = union; COPY/BSD0 patches.
use crate::common::*;
use std::path::PathBuf;
use wow_mpq::patch::{PatchFile, apply_patch};
use wow_mpq::{ArchiveBuilder, ListfileOption, PatchChain};

const NAMES: [&str; 6] = ["a.txt", "b.txt", "c.txt", "Data\\D.txt", "e.bin", "never.txt"];
const PRIOS: [i32; 4] = [-1, 0, 0, 5];

struct World { paths: Vec<PathBuf>, has: Vec<Vec<bool>>, _dir: tempfile::TempDir }

fn content(arch: usize, name: &str) -> Vec<u8> { format!("archive{arch}:{name}").into_bytes() }

fn build_world(rng: &mut Rng) -> World {
    let dir = tempfile::tempdir().expect("tmpdir");
    let mut paths = vec![]; let mut has = vec![];
    for a in 0..4usize {
        let mut h = vec![false; NAMES.len()];
        let mut b = ArchiveBuilder::new().listfile_option(ListfileOption::Generate);
        for (i, n) in NAMES.iter().enumerate().take(5) {
            // name 5 is in no archive; archive 3 shares everything with archive 0 to force ties to matter
            let inc = if a == 3 { true } else { rng.chance(1, 2) || (a == 0 && i == 0) };
            if inc { h[i] = true; b = b.add_file_data(content(a, n), n); }
        }
        let p = dir.path().join(format!("arch{a}.mpq"));
        b.build(&p).expect("build world archive");
        paths.push(p); has.push(h);
    }
    World { paths, has, _dir: dir }
}

#[derive(Clone, Debug)]
enum Op { Add(usize, i32), Rm(usize), Prio(usize, i32), Clear }

/// independent bookkeeping of (id, prio, stamp)
#[derive(Clone)]
struct Ref { entries: Vec<(usize, i32, u64)>, next: u64 }
impl Ref {
    fn best(&self, w: &World, name: usize) -> Option<usize> {
        self.entries.iter().filter(|e| w.has[e.0][name]).max_by(|a, b| a.1.cmp(&b.1).then(b.2.cmp(&a.2))).map(|e| e.0)
    }
}

fn check_state(ctx: &mut Ctx, w: &World, chain: &mut PatchChain, r: &Ref, hist: &str) {
    // order as the implementation reports it
    let info = chain.get_chain_info();
    let order: Vec<String> = info.iter().map(|ci| format!("{}:{}", w.paths.iter().position(|p| *p == ci.path).unwrap_or(99), ci.priority)).collect();
    ctx.out.stat(&format!("c08.chain_len.{}", order.len().min(6)));
    for (ni, name) in NAMES.iter().enumerate() {
        let holders: Vec<String> = (0..4).filter(|a| w.has[*a][ni]).map(|a| a.to_string()).collect();
        let imp = chain.find_file_archive(name).and_then(|p| w.paths.iter().position(|q| q == p));
        ctx.out.case(&format!("c08find {}", if holders.is_empty() { "-".to_string() } else { holders.join(",") }), &imp.map(|i| i.to_string()).unwrap_or("none".into()));
        // property oracle against independent bookkeeping
        let want = r.best(w, ni);
        let spelled = if ni % 2 == 0 { name.to_uppercase() } else { name.replace('\\', "/") };
        let got = chain.read_file(&spelled);
        match (want, &got) {
            (Some(a), Ok(data)) => ctx.out.oracle(*data == content(a, name), "chain-read-wrong-version", &format!("{hist}: read {name} -> {:?}, want archive{a}", String::from_utf8_lossy(data))),
            (None, Err(_)) => ctx.out.oracle(true, "", ""),
            (Some(a), Err(e)) => ctx.out.oracle(false, "chain-read-wrong-version", &format!("{hist}: read {name} -> error {e}, want archive{a}")),
            (None, Ok(d)) => ctx.out.oracle(false, "chain-read-found-absent-name", &format!("{hist}: read {name} -> {:?}", String::from_utf8_lossy(d))),
        }
        ctx.out.oracle(chain.contains_file(name) == want.is_some(), "chain-contains-wrong", &format!("{hist}: contains {name}"));
        if want.is_some() && r.entries.iter().filter(|e| w.has[e.0][ni]).count() > 1 { ctx.out.nontrivial(format!("{hist}{ni}").as_bytes()); }
    }
    // Model.C08Read: the file map (first archive in chain order that lists the key) and the listing (union, once, sorted)
    {
        let chain_ids: Vec<usize> = info.iter().filter_map(|ci| w.paths.iter().position(|p| *p == ci.path)).collect();
        // names ranked by their string order, so that the model's numeric order is the implementation's string order
        let mut ranked: Vec<usize> = (0..NAMES.len()).collect(); ranked.sort_by_key(|i| NAMES[*i]);
        let rank = |ni: usize| ranked.iter().position(|r| *r == ni).unwrap_or(99);
        let lists: Vec<String> = chain_ids.iter().map(|a| { let v: Vec<String> = (0..NAMES.len()).filter(|ni| w.has[*a][*ni]).map(|ni| rank(ni).to_string()).collect(); if v.is_empty() { "e".to_string() } else { v.join(",") } }).collect();
        let lists_s = if lists.is_empty() { "-".to_string() } else { lists.join(";") };
        for (ni, name) in NAMES.iter().enumerate() {
            let imp = chain.find_file_archive(name).and_then(|p| info.iter().position(|ci| ci.path == p));
            ctx.out.case(&format!("c08map {} {}", lists_s, rank(ni)), &imp.map(|i| i.to_string()).unwrap_or("none".into()));
        }
        if let Ok(l) = chain.list() {
            let got: Vec<String> = l.iter().filter(|f| !f.name.starts_with('(')).map(|f| NAMES.iter().position(|n| *n == f.name).map(|ni| rank(ni).to_string()).unwrap_or("?".into())).collect();
            ctx.out.case(&format!("c08list {}", lists_s), &(if got.is_empty() { "-".to_string() } else { got.join(",") }));
        }
    }
    // listing = union of names
    if let Ok(l) = chain.list() {
        let mut got: Vec<String> = l.iter().map(|f| f.name.clone()).filter(|n| !n.starts_with('(')).collect(); got.sort();
        let mut want: Vec<String> = NAMES.iter().enumerate().filter(|(ni, _)| r.entries.iter().any(|e| w.has[e.0][*ni])).map(|(_, n)| n.to_string()).collect(); want.sort();
        ctx.out.oracle(got == want, "chain-list-not-union", &format!("{hist}: {:?} vs {:?}", got, want));
    }
}

fn run_history(ctx: &mut Ctx, w: &World, ops: &[Op]) {
    let mut chain = PatchChain::new();
    let mut r = Ref { entries: vec![], next: 0 };
    ctx.out.case("c08reset", "ok");
    let mut hist = String::new();
    for op in ops {
        hist.push_str(&format!("{:?};", op));
        let order_of = |chain: &mut PatchChain| -> String {
            let info = chain.get_chain_info();
            if info.is_empty() { "-".to_string() } else { info.iter().map(|ci| format!("{}:{}", w.paths.iter().position(|p| *p == ci.path).unwrap_or(99), ci.priority)).collect::<Vec<_>>().join(",") }
        };
        match op {
            Op::Add(a, p) => { let ok = chain.add_archive(&w.paths[*a], *p).is_ok(); if ok { r.entries.push((*a, *p, r.next)); r.next += 1; }
                let o = order_of(&mut chain); ctx.out.case(&format!("c08add {} {}", a, p), &o); }
            Op::Rm(a) => { let _ = chain.remove_archive(&w.paths[*a]);
                if let Some(pos) = { let info = chain.get_chain_info(); let _ = info; r.entries.iter().position(|e| e.0 == *a) } {
                    // the implementation removes the first entry in chain order with that path; mirror by chain order
                    let mut sorted = r.entries.clone(); sorted.sort_by(|x, y| y.1.cmp(&x.1).then(x.2.cmp(&y.2)));
                    if let Some(first) = sorted.iter().find(|e| e.0 == *a) { let st = first.2; r.entries.retain(|e| e.2 != st); }
                    let _ = pos;
                }
                let o = order_of(&mut chain); ctx.out.case(&format!("c08rm {}", a), &o); }
            Op::Prio(a, p) => { let res = chain.set_priority(&w.paths[*a], *p);
                if res.is_ok() {
                    let mut sorted = r.entries.clone(); sorted.sort_by(|x, y| y.1.cmp(&x.1).then(x.2.cmp(&y.2)));
                    if let Some(first) = sorted.iter().find(|e| e.0 == *a) { let st = first.2; r.entries.retain(|e| e.2 != st); }
                    r.entries.push((*a, *p, r.next)); r.next += 1;
                }
                let o = if res.is_ok() { order_of(&mut chain) } else { "err".to_string() }; ctx.out.case(&format!("c08prio {} {}", a, p), &o); }
            Op::Clear => { chain.clear(); r.entries.clear(); ctx.out.case("c08clear", "-"); }
        }
        check_state(ctx, w, &mut chain, &r, &hist);
    }
}

fn all_ops() -> Vec<Op> {
    let mut v = vec![Op::Clear];
    for a in 0..4 { v.push(Op::Rm(a)); for p in [-1, 0, 5] { v.push(Op::Add(a, p)); v.push(Op::Prio(a, p)); } }
    v
}

// ---------------- patches
fn md5(d: &[u8]) -> [u8; 16] { use md5::{Digest, Md5}; let mut h = Md5::new(); h.update(d); h.finalize().into() }
pub fn rle_encode(d: &[u8]) -> Vec<u8> {
    let mut out = (d.len() as u32).to_le_bytes().to_vec();
    let mut i = 0;
    while i < d.len() {
        if d[i] == 0 { let mut j = i; while j < d.len() && d[j] == 0 && j - i < 128 { j += 1; } out.push((j - i - 1) as u8); i = j; }
        else { let mut j = i; while j < d.len() && d[j] != 0 && j - i < 128 { j += 1; } out.push(0x80 | (j - i - 1) as u8); out.extend_from_slice(&d[i..j]); i = j; }
    }
    out
}
pub fn patch_bytes(kind: &str, base: &[u8], new: &[u8], payload: &[u8], data_size: u32) -> Vec<u8> {
    let mut p = vec![];
    p.extend_from_slice(&0x48435450u32.to_le_bytes()); p.extend_from_slice(&data_size.to_le_bytes());
    p.extend_from_slice(&(base.len() as u32).to_le_bytes()); p.extend_from_slice(&(new.len() as u32).to_le_bytes());
    p.extend_from_slice(&0x5f35444du32.to_le_bytes()); p.extend_from_slice(&40u32.to_le_bytes());
    p.extend_from_slice(&md5(base)); p.extend_from_slice(&md5(new));
    p.extend_from_slice(&0x4d524658u32.to_le_bytes()); p.extend_from_slice(&(12 + payload.len() as u32).to_le_bytes());
    p.extend_from_slice(if kind == "copy" { b"COPY" } else { b"BSD0" });
    p.extend_from_slice(payload);
    p
}
/// small bsdiff-style encoder: split the new file into segments, alternately "add" (diff against old) and "extra"
pub fn bsd0_block(rng: &mut Rng, base: &[u8], new: &[u8]) -> Vec<u8> {
    let mut ctrl = vec![]; let mut data = vec![]; let mut extra = vec![];
    let mut npos = 0usize; let mut opos = 0usize;
    while npos < new.len() {
        let add = (rng.range(0, 9) as usize).min(new.len() - npos);
        for j in 0..add { let o = if opos + j < base.len() { base[opos + j] } else { 0 }; data.push(new[npos + j].wrapping_sub(o)); }
        npos += add; opos += add;
        let mov = (rng.range(0, 6) as usize).min(new.len() - npos);
        extra.extend_from_slice(&new[npos..npos + mov]); npos += mov;
        // seek in old: forward only. (Backward seeks: the decoder computes 0x80000000.wrapping_sub(raw) and
        // saturating-subtracts it, which for any raw with the top bit set other than 0x80000000 itself jumps to 0 —
        // not StormLib's sign-magnitude meaning; such patches end in an MD5 error, which the property allows.)
        let f = rng.range(0, 4) as u32; let (raw, newo): (u32, usize) = (f, opos + f as usize);
        opos = newo;
        ctrl.extend_from_slice(&(add as u32).to_le_bytes()); ctrl.extend_from_slice(&(mov as u32).to_le_bytes()); ctrl.extend_from_slice(&raw.to_le_bytes());
        if add == 0 && mov == 0 && npos < new.len() { continue; }
    }
    let mut b = vec![];
    b.extend_from_slice(&0x3034464649445342u64.to_le_bytes());
    b.extend_from_slice(&(ctrl.len() as u64).to_le_bytes()); b.extend_from_slice(&(data.len() as u64).to_le_bytes()); b.extend_from_slice(&(new.len() as u64).to_le_bytes());
    b.extend_from_slice(&ctrl); b.extend_from_slice(&data); b.extend_from_slice(&extra);
    b
}
fn patch_case(ctx: &mut Ctx, pbytes: &[u8], base: &[u8], expect_ok: Option<&[u8]>, what: &str) {
    let r = std::panic::catch_unwind(|| PatchFile::parse(pbytes).map(|p| apply_patch(&p, base)));
    let ans = match &r {
        Err(_) => "panic".to_string(),
        Ok(Err(_)) => "err parse".into(),
        Ok(Ok(Ok(out))) => format!("ok {}", hex(out)),
        Ok(Ok(Err(e))) => { let m = e.to_string(); if m.contains("Base file MD5") { "err md5base".into() } else if m.contains("Patched file MD5") { "err md5result".into() } else { "err format".into() } }
    };
    ctx.out.case(&format!("c08patch {} {}", hex(pbytes), hex(base)), &ans);
    ctx.out.stat(&format!("c08.patch.{}", if ans.starts_with("ok") { "ok".to_string() } else { ans.replace(' ', "_") }));
    if let Some(want) = expect_ok { ctx.out.oracle(ans == format!("ok {}", hex(want)), "well-formed-patch-rejected-or-wrong", &format!("{what}: {ans:.80}")); }
    // never unverified bytes: an Ok result must hash to the digest the patch declares
    if let Ok(Ok(Ok(out))) = &r { if pbytes.len() >= 56 { ctx.out.oracle(md5(out)[..] == pbytes[40..56], "patch-result-unverified", what); } }
    if r.is_err() { ctx.out.oracle(false, "patch-panic", what); }
}

pub fn run(ctx: &mut Ctx) {
    let mut rng = ctx.rng.clone();
    let w = build_world(&mut rng);
    ctx.rng = rng;
    // bounded-exhaustive short histories
    let ops = all_ops();
    let depth2: Vec<Vec<Op>> = ops.iter().flat_map(|a| ops.iter().map(move |b| vec![a.clone(), b.clone()])).collect();
    let stride = if ctx.thorough { 1 } else { 7 };
    for (i, h) in depth2.iter().enumerate() { if i % stride == (ctx.seed as usize % stride) { run_history(ctx, &w, h); } }
    // histories that start from a populated chain, then every pair (thorough) / random pairs (quick)
    let n = if ctx.thorough { 2500 } else { 160 };
    for _ in 0..n {
        let len = ctx.rng.range(3, 12) as usize;
        let h: Vec<Op> = (0..len).map(|_| { let a = ctx.rng.below(4) as usize; let p = *ctx.rng.pick(&PRIOS);
            match ctx.rng.below(10) { 0..=4 => Op::Add(a, p), 5 | 6 => Op::Prio(a, p), 7 | 8 => Op::Rm(a), _ => Op::Clear } }).collect();
        run_history(ctx, &w, &h);
    }
    // names that differ ONLY in the case of a non-ASCII letter are different files (the format folds ASCII letters): each is
    // read from the archive that holds it, whatever the priorities (defect D69 before its repair)
    {
        let dir = tempfile::tempdir().expect("tmp");
        let lo = dir.path().join("lo.mpq"); let hi = dir.path().join("hi.mpq");
        let ok = ArchiveBuilder::new().listfile_option(ListfileOption::Generate).add_file_data(b"lower".to_vec(), "ü.txt").add_file_data(b"accent".to_vec(), "Data\\É.bin").build(&lo).is_ok()
            && ArchiveBuilder::new().listfile_option(ListfileOption::Generate).add_file_data(b"UPPER".to_vec(), "Ü.txt").build(&hi).is_ok();
        if ok {
            for (plo, phi) in [(0, 10), (10, 0), (5, 5)] {
                let mut c = PatchChain::new();
                if c.add_archive(&lo, plo).is_err() || c.add_archive(&hi, phi).is_err() { continue; }
                for (name, want) in [("ü.txt", Some(&b"lower"[..])), ("Ü.txt", Some(&b"UPPER"[..])), ("data/É.BIN", Some(&b"accent"[..])), ("Data\\é.bin", None)] {
                    let got = c.read_file(name).ok();
                    ctx.out.oracle(got.as_deref() == want, "chain-read-wrong-version", &format!("archives lo(ü.txt, Data\\É.bin)@{plo} hi(Ü.txt)@{phi}: read {name} -> {:?}, want {:?}", got.as_ref().map(|d| String::from_utf8_lossy(d).to_string()), want.map(|d| String::from_utf8_lossy(d).to_string())));
                    ctx.out.oracle(c.contains_file(name) == want.is_some(), "chain-contains-wrong", &format!("non-ASCII case: contains {name}"));
                }
                ctx.out.stat("c08.nonascii_case");
            }
        } else { ctx.out.stat("c08.nonascii_build_failed"); }
    }
    // parallel construction = sequential construction
    for _ in 0..(if ctx.thorough { 300 } else { 40 }) {
        let k = ctx.rng.range(0, 4) as usize;
        let mut ids: Vec<usize> = (0..4).collect(); for i in (1..4).rev() { let j = ctx.rng.below(i as u64 + 1) as usize; ids.swap(i, j); }
        let list: Vec<(usize, i32)> = ids.iter().take(k).map(|a| (*a, *ctx.rng.pick(&PRIOS))).collect();
        let arg = if list.is_empty() { "-".to_string() } else { list.iter().map(|(a, p)| format!("{a}:{p}")).collect::<Vec<_>>().join(",") };
        let par = PatchChain::from_archives_parallel(list.iter().map(|(a, p)| (w.paths[*a].clone(), *p)).collect());
        let mut seq = PatchChain::new(); for (a, p) in &list { let _ = seq.add_archive(&w.paths[*a], *p); }
        if let Ok(mut par) = par {
            let o = |c: &mut PatchChain| { let i = c.get_chain_info(); if i.is_empty() { "-".to_string() } else { i.iter().map(|ci| format!("{}:{}", w.paths.iter().position(|p| *p == ci.path).unwrap_or(99), ci.priority)).collect::<Vec<_>>().join(",") } };
            let po = o(&mut par); let so = o(&mut seq);
            ctx.out.case("c08reset", "ok");
            ctx.out.case(&format!("c08par {}", arg), &po);
            ctx.out.oracle(po == so, "parallel-differs-from-sequential", &format!("{arg}: parallel {po} sequential {so}"));
            for name in NAMES { let a = par.read_file(name).ok(); let b = seq.read_file(name).ok(); ctx.out.oracle(a == b, "parallel-differs-from-sequential", &format!("{arg}: read {name}")); }
        } else { ctx.out.oracle(false, "parallel-construction-fails", &arg); }
    }
    // ---- patches
    let np = if ctx.thorough { 400 } else { 60 };
    for i in 0..np {
        let blen = ctx.rng.range(0, 40) as usize; let nlen = ctx.rng.range(0, 60) as usize;
        let base: Vec<u8> = (0..blen).map(|_| if ctx.rng.chance(1, 4) { 0 } else { ctx.rng.next() as u8 }).collect();
        let new: Vec<u8> = (0..nlen).map(|j| if j < blen && ctx.rng.chance(2, 3) { base[j] } else { ctx.rng.next() as u8 }).collect();
        let (kind, pb) = if i % 3 == 0 { ("copy", patch_bytes("copy", &base, &new, &new, new.len() as u32)) }
            else { let mut rng = ctx.rng.clone(); let blk = bsd0_block(&mut rng, &base, &new); ctx.rng = rng; let enc = rle_encode(&blk); ("bsd0", patch_bytes("bsd0", &base, &new, &enc, blk.len() as u32)) };
        patch_case(ctx, &pb, &base, Some(&new), &format!("{kind} patch base={} new={}", blen, nlen));
        ctx.out.nontrivial(&pb);
        // wrong base
        let mut wb = base.clone(); if wb.is_empty() { wb.push(1) } else { wb[0] ^= 1 }
        patch_case(ctx, &pb, &wb, None, "wrong base");
        // every header field and a sample of payload bytes altered (sizes kept small: huge declared sizes are C05's subject)
        let mut positions: Vec<usize> = (0..68.min(pb.len())).collect();
        for _ in 0..12 { if pb.len() > 68 { positions.push(ctx.rng.range(68, pb.len() as u64 - 1) as usize); } }
        for pos in positions {
            let mut m = pb.clone();
            m[pos] = match ctx.rng.below(3) { 0 => m[pos] ^ 1, 1 => m[pos].wrapping_add(1), _ => ctx.rng.next() as u8 };
            if m == pb { continue; }
            let ds = u32::from_le_bytes([m[4], m[5], m[6], m[7]]); let sa = u32::from_le_bytes([m[12], m[13], m[14], m[15]]);
            if ds > 1 << 20 || sa > 1 << 20 { continue; }
            patch_case(ctx, &m, &base, None, &format!("{kind} patch byte {pos} altered"));
        }
        // whole digest fields replaced (all zero, all 0xFF, swapped): "not recorded" conventions must not bypass verification
        for (lo, fill) in [(24usize, 0u8), (40, 0), (24, 0xFF), (40, 0xFF)] {
            let mut m = pb.clone(); for b in &mut m[lo..lo + 16] { *b = fill; }
            patch_case(ctx, &m, &base, None, &format!("{kind} patch digest at {lo} filled with {fill:#x}"));
            patch_case(ctx, &m, &wb, None, &format!("{kind} patch digest at {lo} filled with {fill:#x}, wrong base"));
        }
        { let mut m = pb.clone(); let (a, b) = m.split_at_mut(40); a[24..40].swap_with_slice(&mut b[..16]); patch_case(ctx, &m, &base, None, "digests swapped"); }
        // identity patches (declared result = declared base, all 32 digest bytes and both sizes coincide): still a patch for
        // THAT base only - any other base (altered, longer, shorter, empty) is refused, never handed back as the result
        if i % 4 == 0 {
            let idp = if i % 3 == 0 { patch_bytes("copy", &base, &base, &base, base.len() as u32) }
                else { let mut rng = ctx.rng.clone(); let blk = bsd0_block(&mut rng, &base, &base); ctx.rng = rng; patch_bytes("bsd0", &base, &base, &rle_encode(&blk), blk.len() as u32) };
            patch_case(ctx, &idp, &base, Some(&base), &format!("{kind} identity patch base={blen}"));
            let mut longer = base.clone(); longer.push(7);
            for (what, other) in [("altered base", wb.clone()), ("longer base", longer), ("shorter base", base[..base.len().saturating_sub(1)].to_vec()), ("empty base", vec![])] {
                if other == base { continue; }
                patch_case(ctx, &idp, &other, None, &format!("{kind} identity patch on {what}"));
                let r = std::panic::catch_unwind(|| PatchFile::parse(&idp).map(|p| apply_patch(&p, &other)));
                ctx.out.oracle(!matches!(r, Ok(Ok(Ok(_)))), "patch-result-unverified", &format!("{kind} identity patch for a {blen}-byte base accepted {what} ({} bytes)", other.len()));
            }
        }
        if pb.len() > 3 { patch_case(ctx, &pb[..pb.len() - 1], &base, None, "truncated by one"); patch_case(ctx, &pb[..66.min(pb.len())], &base, None, "truncated header"); }
    }
    // patch entries inside a chain: an archive whose entry carries the patch-file flag (TPatchInfo + PTCH image stored
    // raw; the flag is set in the encrypted block table through the public cipher, the builder cannot emit it) on top of
    // a base archive. The chain returns the patched bytes when the patch applies, and an error - never the unpatched
    // base, never unverified bytes - when it does not
    {
        use wow_mpq::crypto::{decrypt_block, encrypt_block, hash_string, hash_type};
        let dir = tempfile::tempdir().expect("tmp");
        const NAME: &str = "Data\\patched.dat";
        let plain = |file: &str, data: &[u8]| -> Option<PathBuf> { let p = dir.path().join(file); ArchiveBuilder::new().listfile_option(ListfileOption::Generate).add_file_data_with_options(data.to_vec(), NAME, 0, false, 0).build(&p).ok()?; Some(p) };
        let mark = |path: &PathBuf| -> bool {
            let Ok(a) = wow_mpq::Archive::open(path) else { return false };
            let Ok(Some(fi)) = a.find_file(NAME) else { return false };
            let bi = fi.block_index; drop(a);
            let Ok(mut bytes) = std::fs::read(path) else { return false };
            let rd = |b: &[u8], o: usize| u32::from_le_bytes([b[o], b[o + 1], b[o + 2], b[o + 3]]);
            let (bp, bc) = (rd(&bytes, 0x14) as usize, rd(&bytes, 0x1c) as usize);
            if bi >= bc || bp + bc * 16 > bytes.len() { return false; }
            let mut t: Vec<u32> = (0..bc * 4).map(|i| rd(&bytes, bp + i * 4)).collect();
            let key = hash_string("(block table)", hash_type::FILE_KEY);
            decrypt_block(&mut t, key); t[bi * 4 + 3] |= 0x0010_0000; encrypt_block(&mut t, key);
            for (i, w) in t.iter().enumerate() { bytes[bp + i * 4..bp + i * 4 + 4].copy_from_slice(&w.to_le_bytes()); }
            std::fs::write(path, bytes).is_ok()
        };
        let entry = |ptch: &[u8]| -> Vec<u8> { let mut d = vec![]; d.extend_from_slice(&28u32.to_le_bytes()); d.extend_from_slice(&0u32.to_le_bytes()); d.extend_from_slice(&(ptch.len() as u32).to_le_bytes()); d.extend_from_slice(&md5(ptch)); d.extend_from_slice(ptch); d };
        let n = if ctx.thorough { 40 } else { 10 };
        for k in 0..n {
            let blen = ctx.rng.range(1, 300) as usize; let nlen = ctx.rng.range(1, 300) as usize;
            let base = ctx.rng.bytes(blen); let new = ctx.rng.bytes(nlen);
            let bsd = k % 2 == 1;
            let good = if bsd { let mut rng = ctx.rng.clone(); let blk = bsd0_block(&mut rng, &base, &new); ctx.rng = rng; patch_bytes("bsd0", &base, &new, &rle_encode(&blk), blk.len() as u32) } else { patch_bytes("copy", &base, &new, &new, new.len() as u32) };
            // variants: well-formed; one payload byte altered; declared base digest altered; declared result digest altered
            let mut variants: Vec<(&str, Vec<u8>, bool)> = vec![("well-formed", good.clone(), true)];
            { let mut m = good.clone(); let p = m.len() - 1 - ctx.rng.below(((m.len() - 68).max(1)) as u64) as usize; m[p] ^= 0x20; variants.push(("payload byte altered", m, false)); }
            { let mut m = good.clone(); m[24] ^= 1; variants.push(("base digest altered", m, false)); }
            { let mut m = good.clone(); m[40] ^= 1; variants.push(("result digest altered", m, false)); }
            // a patch entry that does not parse at all: never skipped in favour of the base (defect D68 before its repair)
            { let mut m = good.clone(); m[0] ^= 0x01; variants.push(("patch signature altered", m, false)); }
            { let mut m = good.clone(); m[16] ^= 0x01; variants.push(("digest block signature altered", m, false)); }
            { let m = good[..40.min(good.len())].to_vec(); variants.push(("patch cut inside its header", m, false)); }
            // three levels: base, a patch base -> mid (priority 50), a patch mid -> new (priority 100); with the lower patch intact
            // the answer is `new`, with the lower patch unparseable or altered it is an error (never `mid`, `base` or anything unverified)
            if k % 2 == 0 {
                let mlen = ctx.rng.range(1, 200) as usize; let mid = ctx.rng.bytes(mlen);
                let p1 = patch_bytes("copy", &base, &mid, &mid, mid.len() as u32);
                let p2 = patch_bytes("copy", &mid, &new, &new, new.len() as u32);
                for (what1, p1v, ok1) in [("intact", p1.clone(), true), ("signature altered", { let mut m = p1.clone(); m[0] ^= 1; m }, false), ("result digest altered", { let mut m = p1.clone(); m[41] ^= 4; m }, false)] {
                    let (Some(bp), Some(p1p), Some(p2p)) = (plain(&format!("b3_{k}.mpq"), &base), plain(&format!("p3a_{k}.mpq"), &entry(&p1v)), plain(&format!("p3b_{k}.mpq"), &entry(&p2))) else { ctx.out.stat("c08.chain3.build_failed"); continue };
                    if !mark(&p1p) || !mark(&p2p) { ctx.out.stat("c08.chain3.mark_failed"); continue; }
                    let mut chain = PatchChain::new();
                    if chain.add_archive(&p2p, 100).is_err() || chain.add_archive(&bp, 0).is_err() || chain.add_archive(&p1p, 50).is_err() { continue; }
                    let got = std::panic::catch_unwind(std::panic::AssertUnwindSafe(|| chain.read_file(NAME)));
                    let imp_ans = match &got { Ok(Ok(d)) => format!("ok {}", if d.is_empty() { "-".to_string() } else { hex(d) }), Ok(Err(_)) => "err".to_string(), Err(_) => "panic".to_string() };
                    ctx.out.case(&format!("c08pread 0 p:{};p:{};d:{}", hex(&p2), hex(&p1v), hex(&base)), &imp_ans);
                    let desc = format!("three-level chain, lower patch {what1}");
                    match got {
                        Ok(Ok(d)) => ctx.out.oracle(ok1 && d == new, "chain-returns-unverified-bytes", &format!("{desc}: Ok with {} bytes (new {}, mid {}, base {})", d.len(), new.len(), mid.len(), base.len())),
                        Ok(Err(_)) => ctx.out.oracle(!ok1, "chain-patch-not-applied", &format!("{desc}: error")),
                        Err(_) => ctx.out.oracle(false, "patch-panic", &desc),
                    }
                    ctx.out.stat(&format!("c08.chain3.{}", what1.replace(' ', "_")));
                }
            }
            for (what, ptch, should_apply) in variants {
                let (Some(bp), Some(pp)) = (plain(&format!("b{k}.mpq"), &base), plain(&format!("p{k}.mpq"), &entry(&ptch))) else { ctx.out.stat("c08.chainpatch.build_failed"); continue };
                if !mark(&pp) { ctx.out.stat("c08.chainpatch.mark_failed"); continue; }
                let mut chain = PatchChain::new();
                if chain.add_archive(&bp, 0).is_err() || chain.add_archive(&pp, 100).is_err() { ctx.out.stat("c08.chainpatch.add_failed"); continue; }
                let got = std::panic::catch_unwind(std::panic::AssertUnwindSafe(|| chain.read_file(NAME)));
                let desc = format!("{} patch entry over a {blen}-byte base, {what}", if bsd { "BSD0" } else { "COPY" });
                let imp_ans = match &got { Ok(Ok(d)) => format!("ok {}", if d.is_empty() { "-".to_string() } else { hex(d) }), Ok(Err(_)) => "err".to_string(), Err(_) => "panic".to_string() };
                match got {
                    Err(_) => ctx.out.oracle(false, "patch-panic", &desc),
                    Ok(Ok(d)) => { if should_apply { ctx.out.oracle(d == new, "chain-patch-not-applied", &format!("{desc}: got {} bytes (base {} / new {})", d.len(), blen, nlen)); if d == new { ctx.out.nontrivial(desc.as_bytes()); } }
                                   else { ctx.out.oracle(md5(&d)[..] == ptch[40..56] && d != base, "chain-returns-unverified-bytes", &format!("{desc}: read_file returned Ok with {} bytes{}", d.len(), if d == base { " (the unpatched base)" } else { "" })); } }
                    Ok(Err(_)) => ctx.out.oracle(!should_apply, "chain-patch-not-applied", &format!("{desc}: error")),
                }
                ctx.out.stat(&format!("c08.chainpatch.{}", what.replace(' ', "_")));
                // Model.C08Read.readFile on the same versions: patch entry on top (chain position 0), plain base below
                ctx.out.case(&format!("c08pread 0 p:{};d:{}", hex(&ptch), hex(&base)), &imp_ans);
                // the history goes on after a patched read: every later answer follows the chain as it is NOW (nothing kept
                // from the earlier read) - re-prioritised below the base, back, removed, re-added, cleared
                if should_apply {
                    let rd = |c: &mut PatchChain| std::panic::catch_unwind(std::panic::AssertUnwindSafe(|| c.read_file(NAME))).unwrap_or_else(|_| Err(wow_mpq::Error::invalid_format("panic")));
                    let mut steps: Vec<(&str, Option<Vec<u8>>)> = vec![];
                    let _ = rd(&mut chain);
                    let _ = chain.set_priority(&pp, -5); steps.push(("patch archive re-prioritised below the base", rd(&mut chain).ok()));
                    let want0 = Some(base.clone());
                    let _ = chain.set_priority(&pp, 100); steps.push(("patch archive back on top", rd(&mut chain).ok()));
                    let _ = chain.remove_archive(&pp); steps.push(("patch archive removed", rd(&mut chain).ok()));
                    let _ = chain.add_archive(&pp, 100); steps.push(("patch archive added again", rd(&mut chain).ok()));
                    chain.clear(); steps.push(("chain cleared", rd(&mut chain).ok()));
                    let wants = [want0.clone(), Some(new.clone()), want0, Some(new.clone()), None];
                    for ((st, got), want) in steps.iter().zip(wants.iter()) {
                        ctx.out.oracle(got == want, "chain-answer-does-not-follow-history", &format!("{desc}; then {st}: got {:?} bytes, want {:?}", got.as_ref().map(|d| d.len()), want.as_ref().map(|d| d.len())));
                    }
                    ctx.out.oracle(chain.get_chain_info().is_empty() && !chain.contains_file(NAME), "chain-answer-does-not-follow-history", &format!("{desc}: cleared chain still lists archives or the name"));
                }
            }
        }
    }
}
