//! C14 — ADT terrain survives build→serialise→parse, re-serialisation is stable, framing tiles the file and every
//! offset-table entry points at a chunk of the named type (recomputed by the Lean model from the chunk layout).
use crate::common::*;
use std::io::Cursor;
use wow_adt::builder::{AdtBuilder, BuiltAdt};
use wow_adt::chunks::mcnk::{McalChunk, MccvChunk, MclyChunk, MclyLayer, McnkChunk, McrfChunk, McshChunk, VertexColor};
use wow_adt::chunks::mh2o::{DepthOnlyVertex, HeightDepthVertex, Mh2oAttributes, Mh2oChunk, Mh2oEntry, Mh2oHeader, Mh2oInstance, VertexDataArray};
use wow_adt::chunks::{DoodadPlacement, MampChunk, MfboChunk, MtxfChunk, WmoPlacement};
use wow_adt::{AdtVersion, ParsedAdt, RootAdt, parse_adt};

const VERSIONS: [AdtVersion; 6] = [AdtVersion::VanillaEarly, AdtVersion::VanillaLate, AdtVersion::TBC, AdtVersion::WotLK, AdtVersion::Cataclysm, AdtVersion::MoP];

fn f(rng: &mut Rng) -> f32 { (rng.below(200_000) as f32) / 64.0 - 1000.0 }

pub fn water(rng: &mut Rng) -> Mh2oChunk {
    let mut entries = vec![Mh2oEntry::default(); 256];
    let n = rng.range(1, 6);
    for _ in 0..n {
        let idx = *rng.pick(&[0usize, 1, 15, 16, 17, 128, 200, 254, 255]);
        let layers = rng.range(1, 3) as usize;
        let mut e = Mh2oEntry { header: Mh2oHeader { offset_instances: 0, layer_count: layers as u32, offset_attributes: 0 }, ..Default::default() };
        for _ in 0..layers {
            // instances anywhere in the 8x8 cell grid, one in three reaching the far edge (x + w = 8 / y + h = 8: the last
            // vertex column / row of the 9x9 grid), up to the full cell
            let (x, y) = (rng.below(8) as u8, rng.below(8) as u8);
            let w = if rng.chance(1, 3) { 8 - x } else { rng.range(1, (8 - x) as u64) as u8 };
            let h = if rng.chance(1, 3) { 8 - y } else { rng.range(1, (8 - y) as u64) as u8 };
            let lvf = *rng.pick(&[0u16, 2]);
            e.instances.push(Mh2oInstance { liquid_type: rng.range(1, 20) as u16, liquid_object_or_lvf: lvf, min_height_level: f(rng), max_height_level: f(rng), x_offset: x, y_offset: y, width: w, height: h, offset_exists_bitmap: 0, offset_vertex_data: 0 });
            e.exists_bitmaps.push(if rng.chance(1, 2) { Some((if (w as u32) * (h as u32) >= 63 { rng.next() } else { rng.below(1u64 << ((w as u32) * (h as u32))) }) | 1) } else { None });
            e.vertex_data.push(if rng.chance(2, 3) {
                if lvf == 0 { let mut g: Box<[Option<HeightDepthVertex>; 81]> = Box::new([None; 81]);
                    for z in y as usize..=(y + h) as usize { for xx in x as usize..=(x + w) as usize { g[z * 9 + xx] = Some(HeightDepthVertex { height: f(rng), depth: rng.next() as u8 }); } }
                    Some(VertexDataArray::HeightDepth(g)) }
                else { let mut g: Box<[Option<DepthOnlyVertex>; 81]> = Box::new([None; 81]);
                    for z in y as usize..=(y + h) as usize { for xx in x as usize..=(x + w) as usize { g[z * 9 + xx] = Some(DepthOnlyVertex { depth: rng.next() as u8 }); } }
                    Some(VertexDataArray::DepthOnly(g)) }
            } else { None });
        }
        if rng.chance(1, 2) { e.attributes = Some(Mh2oAttributes { fishable: rng.next(), deep: rng.next() }); }
        entries[idx] = e;
    }
    Mh2oChunk { entries }
}

fn water_canon(w: &Option<Mh2oChunk>) -> String {
    match w { None => "none".into(), Some(w) => w.entries.iter().enumerate().filter(|(_, e)| !e.instances.is_empty() || e.attributes.is_some()).map(|(i, e)| {
        let inst: Vec<_> = e.instances.iter().map(|i| (i.liquid_type, i.liquid_object_or_lvf, i.min_height_level.to_bits(), i.max_height_level.to_bits(), i.x_offset, i.y_offset, i.width, i.height)).collect();
        format!("{i}:{inst:?}/{:?}/{:?}/{:?}", e.exists_bitmaps, e.vertex_data, e.attributes) }).collect::<Vec<_>>().join(";") }
}

fn mcnk_canon(c: &McnkChunk) -> String {
    let h = &c.header;
    format!("hdr({},{},{},{},{:?},{})|h{:?}|n{:?}|l{:?}|r{:?}|a{:?}|s{:?}|c{:?}|e{:?}|q{:?}", h.flags.value, h.index_x, h.index_y, h.area_id, h.position.map(|x| x.to_bits()), h.holes_low_res,
        c.heights.as_ref().map(|x| x.heights.iter().map(|v| v.to_bits()).collect::<Vec<_>>()), c.normals.as_ref().map(|n| n.normals.iter().map(|v| (v.x, v.y, v.z)).collect::<Vec<_>>()),
        c.layers.as_ref().map(|l| l.layers.iter().map(|y| (y.texture_id, y.flags.value, y.effect_id)).collect::<Vec<_>>()), (c.refs.as_ref().map(|r| r.references.clone()), c.doodad_refs.as_ref().map(|r| r.doodad_refs.clone()), c.wmo_refs.as_ref().map(|r| r.wmo_refs.clone())),
        c.alpha.as_ref().map(|a| a.data.clone()), c.shadow.as_ref().map(|s| s.shadow_map.clone()), c.vertex_colors.as_ref().map(|v| v.colors.iter().map(|c| (c.b, c.g, c.r, c.a)).collect::<Vec<_>>()),
        c.sound_emitters.as_ref().map(|s| s.emitters.len()), c.liquid.is_some())
}

struct Content { textures: Vec<String>, models: Vec<String>, wmos: Vec<String>, doodads: String, wmops: String, mcnk: Vec<String>, mfbo: String, water: String, mtxf: String, mamp: String }
impl Content {
    fn diff(&self, o: &Content) -> Option<String> {
        if self.textures != o.textures { return Some(format!("textures {:?} vs {:?}", self.textures, o.textures)); }
        if self.models != o.models { return Some(format!("models {:?} vs {:?}", self.models, o.models)); }
        if self.wmos != o.wmos { return Some(format!("wmos {:?} vs {:?}", self.wmos, o.wmos)); }
        if self.doodads != o.doodads { return Some("doodad placements".into()); }
        if self.wmops != o.wmops { return Some("wmo placements".into()); }
        if self.mcnk.len() != o.mcnk.len() { return Some(format!("terrain chunk count {} vs {}", self.mcnk.len(), o.mcnk.len())); }
        for (i, (a, b)) in self.mcnk.iter().zip(o.mcnk.iter()).enumerate() { if a != b { let k = a.bytes().zip(b.bytes()).position(|(x, y)| x != y).unwrap_or(0); return Some(format!("terrain chunk {i} near `{}` vs `{}`", &a[k.saturating_sub(12)..(k + 30).min(a.len())], &b[k.saturating_sub(12)..(k + 30).min(b.len())])); } }
        if self.mfbo != o.mfbo { return Some(format!("flight bounds {} vs {}", self.mfbo, o.mfbo)); }
        if self.water != o.water { return Some("water".into()); }
        if self.mtxf != o.mtxf { return Some(format!("texture flags {} vs {}", self.mtxf, o.mtxf)); }
        if self.mamp != o.mamp { return Some(format!("amplifier {} vs {}", self.mamp, o.mamp)); }
        None
    }
}
fn of_root(r: &RootAdt) -> Content {
    Content { textures: r.textures.clone(), models: r.models.clone(), wmos: r.wmos.clone(), doodads: format!("{:?}", r.doodad_placements), wmops: format!("{:?}", r.wmo_placements),
        mcnk: r.mcnk_chunks.iter().map(mcnk_canon).collect(), mfbo: format!("{:?}", r.flight_bounds), water: water_canon(&r.water_data), mtxf: format!("{:?}", r.texture_flags.as_ref().map(|t| t.flags.clone())), mamp: format!("{:?}", r.texture_amplifier) }
}
/// WotLK+ tiles always carry an MTXF chunk (zeros when the builder was given none): absent and all-zero flags are the same content
fn norm_mtxf(c: &mut Content) { if c.mtxf == "None" || c.mtxf.trim_start_matches("Some([").trim_end_matches("])").split(", ").all(|x| x == "0" || x.is_empty()) { c.mtxf = "no-flags".into(); } }
fn of_built(b: &BuiltAdt) -> Content {
    Content { textures: b.textures().to_vec(), models: b.models().to_vec(), wmos: b.wmos().to_vec(), doodads: format!("{:?}", b.doodad_placements()), wmops: format!("{:?}", b.wmo_placements()),
        mcnk: b.mcnk_chunks().iter().map(mcnk_canon).collect(), mfbo: format!("{:?}", b.flight_bounds().copied()), water: water_canon(&b.water_data().cloned()), mtxf: format!("{:?}", b.texture_flags().map(|t| t.flags.clone())), mamp: format!("{:?}", b.texture_amplifier().copied()) }
}

fn parse_root(bytes: &[u8]) -> Result<RootAdt, String> {
    match std::panic::catch_unwind(|| parse_adt(&mut Cursor::new(bytes.to_vec()))) { Err(_) => Err("parser panics".into()), Ok(Err(e)) => Err(format!("{e}")), Ok(Ok(ParsedAdt::Root(r))) => Ok(*r), Ok(Ok(_)) => Err("not parsed as a root file".into()) }
}

/// top-level chunk walk: (id as written, offset, payload length); None if the framing does not tile the file
fn walk(bytes: &[u8], start: usize, end: usize) -> Option<Vec<(String, usize, usize)>> {
    let mut v = vec![]; let mut p = start;
    while p < end { if p + 8 > end { return None; } let n = u32::from_le_bytes([bytes[p + 4], bytes[p + 5], bytes[p + 6], bytes[p + 7]]) as usize; if p + 8 + n > end { return None; }
        v.push((String::from_utf8_lossy(&bytes[p..p + 4]).chars().rev().collect::<String>(), p, n)); p += 8 + n; }
    Some(v)
}

fn frame_cases(ctx: &mut Ctx, bytes: &[u8], desc: &str) -> bool {
    let Some(top) = walk(bytes, 0, bytes.len()) else { ctx.out.oracle(false, "framing-does-not-tile-file", desc); return false; };
    let find = |id: &str| top.iter().find(|c| c.0 == id);
    let (Some(mhdr), Some(mcin)) = (find("MHDR"), find("MCIN")) else { ctx.out.oracle(false, "offset-tables-missing", desc); return false; };
    let layout = top.iter().map(|c| format!("{}:{}", c.0, c.2)).collect::<Vec<_>>().join(",");
    ctx.out.case(&format!("c14top {layout} {} {}", hex(&bytes[mhdr.1 + 8..mhdr.1 + 8 + mhdr.2]), crate::c18_wdt::canon_rle(&bytes[mcin.1 + 8..mcin.1 + 8 + mcin.2])), "ok");
    // inside every terrain chunk: header offsets against the sub-chunk layout (a sample of chunks in the quick tier)
    let mcnks: Vec<&(String, usize, usize)> = top.iter().filter(|c| c.0 == "MCNK").collect();
    // (I) the chunk index read straight from the bytes: entry i is the i-th terrain chunk (its header position and its
    // payload size, as the writer and the model have it), unused entries are empty
    { let tab = &bytes[mcin.1 + 8..mcin.1 + 8 + mcin.2];
      for i in 0..(tab.len() / 16).min(256) {
          let off = u32::from_le_bytes([tab[16 * i], tab[16 * i + 1], tab[16 * i + 2], tab[16 * i + 3]]) as usize;
          let size = u32::from_le_bytes([tab[16 * i + 4], tab[16 * i + 5], tab[16 * i + 6], tab[16 * i + 7]]) as usize;
          let ok = match mcnks.get(i) { Some(c) => off == c.1 && size == c.2, None => off == 0 && size == 0 };
          if !ok { let at = if off + 4 <= bytes.len() { String::from_utf8_lossy(&bytes[off..off + 4]).chars().rev().collect::<String>() } else { "beyond the file".into() };
              ctx.out.oracle(false, "chunk-index-entry-does-not-point-at-its-terrain-chunk", &format!("entry {i}: offset {off} size {size} (there: {at}); terrain chunk {i} is at {:?} :: {desc}", mcnks.get(i).map(|c| (c.1, c.2)))); break; } } }
    for (i, c) in mcnks.iter().enumerate() {
        if !ctx.thorough && i % 37 != 0 && i != mcnks.len() - 1 { continue; }
        if c.2 < 136 { ctx.out.oracle(false, "terrain-chunk-shorter-than-header", desc); return false; }
        let Some(subs) = walk(bytes, c.1 + 8 + 136, c.1 + 8 + c.2) else { ctx.out.oracle(false, "terrain-sub-chunks-do-not-tile-chunk", &format!("chunk {i} :: {desc}")); return false; };
        let sl = if subs.is_empty() { "-".to_string() } else { subs.iter().map(|s| format!("{}:{}", s.0, s.2)).collect::<Vec<_>>().join(",") };
        ctx.out.case(&format!("c14mcnk {sl} {}", hex(&bytes[c.1 + 8..c.1 + 8 + 136])), "ok");
    }
    true
}

/// water-only tiles: many layer shapes (bitmap only, vertex data only, both, neither; entries with attributes only) so that the
/// layout model sees every region combination
fn water_sweep(ctx: &mut Ctx) {
    let n = if ctx.thorough { 400 } else { 40 };
    for j in 0..n {
        let mut rng = ctx.rng.clone();
        let mut w = water(&mut rng);
        // reshape some entries
        for e in w.entries.iter_mut() {
            if e.instances.is_empty() { if rng.chance(1, 60) { e.attributes = Some(Mh2oAttributes { fishable: rng.next(), deep: rng.next() }); } continue; }
            match rng.below(5) { 0 => { for (k, b) in e.exists_bitmaps.iter_mut().enumerate() { let cells = e.instances.get(k).map(|i| i.width as u32 * i.height as u32).unwrap_or(1); *b = Some((if cells >= 63 { rng.next() } else { rng.below(1u64 << cells) }) | 1); } for v in e.vertex_data.iter_mut() { *v = None; } }   // bitmap only (flat, masked water)
                1 => { for b in e.exists_bitmaps.iter_mut() { *b = None; } }
                2 => { e.attributes = Some(Mh2oAttributes { fishable: rng.next(), deep: rng.next() }); }
                _ => {} }
        }
        ctx.rng = rng;
        let ver = [AdtVersion::WotLK, AdtVersion::Cataclysm, AdtVersion::MoP][j % 3];
        let built = match AdtBuilder::new().with_version(ver).add_texture("t.blp").add_water_data(w).build() { Ok(b) => b, Err(_) => { ctx.out.stat("c14.water_sweep.rejected"); continue; } };
        let Ok(bytes) = built.to_bytes() else { ctx.out.oracle(false, "serialise-fails", "water-only tile"); continue; };
        water_cases(ctx, &bytes, built.water_data());
        // and what the parser reads back is what was handed in
        match parse_root(&bytes) { Ok(r) => { let (g, wn) = (water_canon(&r.water_data), water_canon(&built.water_data().cloned()));
                if g != wn && std::env::var("WVH_DEBUG").is_ok() { let (ga, wa): (Vec<&str>, Vec<&str>) = (g.split(';').collect(), wn.split(';').collect()); for k in 0..ga.len().max(wa.len()) { if ga.get(k) != wa.get(k) { eprintln!("DIFF entry\n got  {}\n want {}", ga.get(k).map(|s| &s[..s.len().min(700)]).unwrap_or("-"), wa.get(k).map(|s| &s[..s.len().min(700)]).unwrap_or("-")); break; } } }
                ctx.out.oracle(g == wn, "parsed-content-differs-from-built", &format!("water :: water-only {ver:?} tile {j}")) },
            Err(e) => ctx.out.oracle(false, "own-output-does-not-parse", &format!("{e} :: water-only tile")) }
        ctx.out.stat("c14.water_sweep");
    }
}

pub fn run(ctx: &mut Ctx) {
    water_sweep(ctx);
    let n = if ctx.thorough { 240 } else { 48 };
    for k in 0..n {
        let ver = VERSIONS[(k % 6) as usize];
        let rng = &mut ctx.rng;
        let nt = rng.range(1, 5) as usize;
        let mut b = AdtBuilder::new().with_version(ver);
        let mut names = vec![];
        for i in 0..nt { b = b.add_texture(format!("tileset/t{}_{}.blp", i, "x".repeat(rng.below(9) as usize))); }
        let nm = rng.below(4) as usize; for i in 0..nm { let n = format!("world/m{i}.m2"); names.push(n.clone()); b = b.add_model(n); }
        let nw = rng.below(3) as usize; for i in 0..nw { b = b.add_wmo(format!("world/wmo/w{i}{}.wmo", "y".repeat(rng.below(5) as usize))); }
        if nm > 0 { for _ in 0..rng.below(4) { b = b.add_doodad_placement(DoodadPlacement { name_id: rng.below(nm as u64) as u32, unique_id: rng.u32(), position: [f(rng), f(rng), f(rng)], rotation: [f(rng), 0.0, f(rng)], scale: rng.range(1, 4096) as u16, flags: (rng.below(4)) as u16 }); } }
        if nw > 0 { for _ in 0..rng.below(3) { b = b.add_wmo_placement(WmoPlacement { name_id: rng.below(nw as u64) as u32, unique_id: rng.u32(), position: [f(rng), f(rng), f(rng)], rotation: [0.0, f(rng), 0.0], extents_min: [f(rng), f(rng), f(rng)], extents_max: [f(rng), f(rng), f(rng)], flags: rng.below(8) as u16, doodad_set: rng.below(3) as u16, name_set: rng.below(3) as u16, scale: 1024 }); } }
        let mut feats = vec![];
        // optional top-level chunks: every combination of (flight bounds, water, texture flags) per version is enumerated
        // (version detection and the writer's chunk selection depend on which markers are present together), the rest random
        let combo = (k / 6) % 8;
        let mamp_on = if ctx.thorough { rng.chance(1, 2) } else { (combo & 1) ^ ((combo >> 2) & 1) == 0 };
        if ver >= AdtVersion::TBC && combo & 1 != 0 { feats.push("mfbo"); b = b.add_flight_bounds(MfboChunk { max_plane: [rng.next() as i16; 9], min_plane: [rng.next() as i16; 9] }); }
        if ver >= AdtVersion::WotLK && combo & 2 != 0 { feats.push("mh2o"); b = b.add_water_data(water(rng)); }
        if ver >= AdtVersion::WotLK && combo & 4 != 0 { feats.push("mtxf"); b = b.add_texture_flags(MtxfChunk { flags: (0..nt).map(|i| if i == 0 { 1 + rng.below(3) as u32 } else { rng.below(4) as u32 }).collect() }); }
        // MoP: texture height parameters and the four blend-mesh chunks (they sit between the texture chunks and the terrain
        // chunks, so every offset recorded for what follows has to account for them)
        if ver >= AdtVersion::MoP && (k / 6) % 3 != 0 {
            use wow_adt::chunks::blend_mesh::{MbbbChunk, MbbbEntry, MbmhChunk, MbmhEntry, MbmiChunk, MbnvChunk, MbnvVertex};
            use wow_adt::chunks::{MtxpChunk, TextureHeightParams};
            feats.push("mtxp"); b = b.add_texture_params(MtxpChunk { entries: (0..nt).map(|i| TextureHeightParams { flags: i as u32 % 2, height_scale: f(rng), height_offset: f(rng), padding: 0 }).collect() });
            if (k / 6) % 3 == 2 {
                feats.push("blendmesh");
                let nv = 3 * rng.range(1, 4) as usize;
                let vertex = |rng: &mut Rng| MbnvVertex { position: [f(rng), f(rng), f(rng)], normal: [0.0, 0.0, 1.0], uv: [f(rng), f(rng)], color: [[rng.next() as u8; 4]; 3] };
                b = b.add_blend_mesh_headers(MbmhChunk { entries: vec![MbmhEntry { map_object_id: 1 + rng.below(9) as u32, texture_id: 0, unknown: 0, mbmi_count: nv as u32, mbnv_count: nv as u32, mbmi_start: 0, mbnv_start: 0 }] })
                    .add_blend_mesh_bounds(MbbbChunk { entries: vec![MbbbEntry { map_object_id: 1, min: [f(rng), f(rng), f(rng)], max: [f(rng), f(rng), f(rng)] }] })
                    .add_blend_mesh_vertices(MbnvChunk { vertices: (0..nv).map(|_| vertex(rng)).collect() })
                    .add_blend_mesh_indices(MbmiChunk { indices: (0..nv as u16).collect() });
            }
        }
        if ver >= AdtVersion::Cataclysm && mamp_on { feats.push("mamp"); b = b.add_texture_amplifier(MampChunk { amplifier: rng.below(4) as u32 }); }
        // populated terrain chunks: taken from a parsed minimal tile of this version and then filled with optional sub-chunks
        let pop = *rng.pick(&[0usize, 0, 1, 3, 256]);
        if pop > 0 {
            let base = AdtBuilder::new().with_version(ver).add_texture("t.blp").build().and_then(|x| x.to_bytes());
            let Ok(base) = base else { ctx.out.oracle(false, "minimal-tile-does-not-build", &format!("{ver:?}")); continue; };
            let Ok(root) = parse_root(&base) else { ctx.out.oracle(false, "minimal-tile-does-not-parse", &format!("{ver:?}")); continue; };
            for (i, mut c) in root.mcnk_chunks.into_iter().take(pop).enumerate() {
                if let Some(h) = c.heights.as_mut() { for v in h.heights.iter_mut() { *v = f(rng); } }
                c.header.area_id = rng.below(5000) as u32; c.header.holes_low_res = rng.next() as u16;
                if i % 2 == 0 || rng.chance(1, 3) {
                    let nl = rng.range(1, nt.min(4) as u64) as usize;
                    c.layers = Some(MclyChunk { layers: (0..nl).map(|j| MclyLayer { texture_id: j as u32, flags: Default::default(), offset_in_mcal: (j.saturating_sub(1) * 2048) as u32, effect_id: rng.below(9) as u32 }).collect() });
                    if nl > 1 { c.alpha = Some(McalChunk::new(rng.bytes((nl - 1) * 2048))); }
                }
                if rng.chance(1, 3) { c.shadow = Some(McshChunk { shadow_map: rng.bytes(512) }); }
                if rng.chance(1, 3) { let r: Vec<u32> = (0..rng.range(1, 4)).map(|_| rng.below(9) as u32).collect(); c.header.n_doodad_refs = r.len() as u32; c.refs = Some(McrfChunk { references: r }); }
                // split reference lists (doodads / map objects in chunks of their own), alone and together
                if c.refs.is_none() { match rng.below(5) {
                    0 => { let r: Vec<u32> = (0..rng.range(1, 4)).map(|_| rng.below(9) as u32).collect(); c.header.n_doodad_refs = r.len() as u32; c.doodad_refs = Some(wow_adt::chunks::mcnk::McrdChunk { doodad_refs: r }); }
                    1 => { let r: Vec<u32> = (0..rng.range(1, 4)).map(|_| rng.below(9) as u32).collect(); c.header.n_map_obj_refs = r.len() as u32; c.wmo_refs = Some(wow_adt::chunks::mcnk::McrwChunk { wmo_refs: r }); }
                    2 => { let r: Vec<u32> = (0..rng.range(1, 4)).map(|_| rng.below(9) as u32).collect(); let q: Vec<u32> = (0..rng.range(1, 3)).map(|_| 20 + rng.below(9) as u32).collect();
                           c.header.n_doodad_refs = r.len() as u32; c.header.n_map_obj_refs = q.len() as u32; c.doodad_refs = Some(wow_adt::chunks::mcnk::McrdChunk { doodad_refs: r }); c.wmo_refs = Some(wow_adt::chunks::mcnk::McrwChunk { wmo_refs: q }); }
                    _ => {} } }
                if ver != AdtVersion::VanillaEarly && rng.chance(1, 2) { c.vertex_colors = Some(MccvChunk { colors: (0..145).map(|_| VertexColor { b: rng.next() as u8, g: rng.next() as u8, r: rng.next() as u8, a: 127 }).collect() }); }
                b = b.add_mcnk_chunk(c);
            }
        }
        let desc = format!("{ver:?} textures={nt} models={nm} wmos={nw} features={feats:?} populated_chunks={pop}");
        ctx.out.stat(&format!("c14.version.{ver:?}")); ctx.out.stat(&format!("c14.populated.{pop}")); for ft in &feats { ctx.out.stat(&format!("c14.feature.{ft}")); }
        let built = match b.build() { Ok(x) => x, Err(e) => { ctx.out.stat("c14.build_rejected"); ctx.out.known("builder-rejects", &format!("{e} :: {desc}")); continue; } };
        let want = of_built(&built);
        let bytes = match built.to_bytes() { Ok(x) => x, Err(e) => { ctx.out.oracle(false, "serialise-fails", &format!("{e} :: {desc}")); continue; } };
        if !frame_cases(ctx, &bytes, &desc) { continue; }
        water_cases(ctx, &bytes, built.water_data());
        let root = match parse_root(&bytes) { Ok(r) => r, Err(e) => { ctx.out.oracle(false, "own-output-does-not-parse", &format!("{e} :: {desc}")); continue; } };
        let mut bad = false;
        // the version label is inferred from which chunks are present; it is not content (a MoP tile without MoP-only chunks
        // is a WotLK tile byte for byte) — counted, while any content it costs on rebuild is caught below
        if root.version != ver { ctx.out.stat("c14.version_label_differs"); }
        let got = of_root(&root);
        // an unpopulated tile is written as 256 generated chunks: compare everything but the terrain list then
        let mut want_cmp = want; if pop == 0 { want_cmp.mcnk = got.mcnk.clone(); }
        let mut got = got; norm_mtxf(&mut want_cmp); norm_mtxf(&mut got);
        if let Some(d) = want_cmp.diff(&got) { bad = true; ctx.out.oracle(false, "parsed-content-differs-from-built", &format!("{d} :: {desc}")); }
        // repeated parse -> rebuild rounds: same content, file does not grow
        let (mut cur, mut cur_len, mut prev) = (root, bytes.len(), got);
        let mut prev_bytes = bytes.clone();
        for round in 1..=3 {
            let again = match std::panic::catch_unwind(|| BuiltAdt::from_root_adt(cur, None).to_bytes()) { Ok(Ok(x)) => x, _ => { bad = true; ctx.out.oracle(false, "re-serialise-fails", &format!("round {round} :: {desc}")); break; } };
            if round == 1 || ctx.thorough { if !frame_cases(ctx, &again, &desc) { bad = true; break; } }
            let r2 = match parse_root(&again) { Ok(r) => r, Err(e) => { bad = true; ctx.out.oracle(false, "re-serialised-tile-does-not-parse", &format!("round {round}: {e} :: {desc}")); break; } };
            let mut g2 = of_root(&r2); norm_mtxf(&mut g2);
            if let Some(d) = prev.diff(&g2) { bad = true; ctx.out.oracle(false, "content-changes-on-re-serialisation", &format!("round {round}: {d} :: {desc}")); break; }
            if again.len() > cur_len {
                bad = true;
                // name the first chunk whose size changed
                let lay = |b: &[u8]| -> Vec<String> { let mut v = vec![]; if let Some(top) = walk(b, 0, b.len()) { for c in top { v.push(format!("{}:{}", c.0, c.2)); if c.0 == "MCNK" && c.2 >= 136 { if let Some(sub) = walk(b, c.1 + 144, c.1 + 8 + c.2) { for s in sub { v.push(format!(" {}:{}", s.0, s.2)); } } } } } v };
                let (l0, l1) = (lay(&prev_bytes), lay(&again));
                let d = l0.iter().zip(l1.iter()).find(|(a, b)| a != b && !a.starts_with("MCNK")).map(|(a, b)| format!("{a} -> {b}")).unwrap_or_else(|| format!("{} vs {} chunks", l0.len(), l1.len()));
                ctx.out.oracle(false, "file-grows-on-re-serialisation", &format!("round {round}: {cur_len} -> {} bytes, first change {d} :: {desc}", again.len())); break; }
            cur = r2; cur_len = again.len(); prev = g2; prev_bytes = again;
        }
        if !bad { ctx.out.oracle(true, "", ""); ctx.out.nontrivial(desc.as_bytes()); }
    }
}

/// Model.C14Water: the offsets recorded in the water chunk of a written file (header table and instance records, read straight
/// from the bytes) against the layout the model computes from what was handed to the builder
fn water_cases(ctx: &mut Ctx, bytes: &[u8], w: Option<&Mh2oChunk>) {
    let Some(w) = w else { return };
    let mut p = 0usize; let mut pl: Option<&[u8]> = None;
    while p + 8 <= bytes.len() { let sz = u32::from_le_bytes([bytes[p + 4], bytes[p + 5], bytes[p + 6], bytes[p + 7]]) as usize; if p + 8 + sz > bytes.len() { break; }
        if &bytes[p..p + 4] == b"O2HM" { pl = Some(&bytes[p + 8..p + 8 + sz]); break; } p += 8 + sz; }
    let Some(pl) = pl else { ctx.out.oracle(false, "water-chunk-missing", "water handed to the builder, no MH2O chunk in the file"); return };
    let spec: Vec<String> = w.entries.iter().map(|e| format!("{}:{}", e.attributes.is_some() as u8,
        (0..e.instances.len()).map(|i| format!("{}.{}", e.exists_bitmaps.get(i).map(|b| b.is_some()).unwrap_or(false) as u8,
            e.vertex_data.get(i).and_then(|v| v.as_ref()).map(|v| v.byte_size().to_string()).unwrap_or("-".into()))).collect::<Vec<_>>().join(","))).collect();
    let rd = |o: usize| -> u32 { if o + 4 <= pl.len() { u32::from_le_bytes([pl[o], pl[o + 1], pl[o + 2], pl[o + 3]]) } else { 0xDEAD_BEEF } };
    let mut outs = vec![];
    for i in 0..256usize {
        let (inst, count, attr) = (rd(i * 12), rd(i * 12 + 4), rd(i * 12 + 8));
        if count == 0 && attr == 0 && inst == 0 { continue; }
        let offs: Vec<String> = (0..count as usize).map(|k| { let b = inst as usize + 24 * k; format!("{}.{}", rd(b + 16), rd(b + 20)) }).collect();
        outs.push(format!("{i}={inst},{count},{attr}[{}]", offs.join(",")));
    }
    ctx.out.case(&format!("c14water {}", spec.join(";")), &format!("{} total={}", if outs.is_empty() { "-".to_string() } else { outs.join(" ") }, pl.len()));
    ctx.out.stat("c14.water_layout");
}
