//! Shared helpers: PRNG (SplitMix64), hex, output sinks, stats.
use std::collections::BTreeMap;
use std::fmt::Write as _;
use std::fs::File;
use std::io::{BufWriter, Write};
use std::path::{Path, PathBuf};

#[derive(Clone)]
pub struct Rng(pub u64);
impl Rng {
    pub fn new(seed: u64) -> Self {
        Rng(seed ^ 0x9E37_79B9_7F4A_7C15)
    }
    pub fn next(&mut self) -> u64 {
        self.0 = self.0.wrapping_add(0x9E37_79B9_7F4A_7C15);
        let mut z = self.0;
        z = (z ^ (z >> 30)).wrapping_mul(0xBF58_476D_1CE4_E5B9);
        z = (z ^ (z >> 27)).wrapping_mul(0x94D0_49BB_1331_11EB);
        z ^ (z >> 31)
    }
    pub fn below(&mut self, n: u64) -> u64 {
        if n == 0 { 0 } else { self.next() % n }
    }
    pub fn range(&mut self, lo: u64, hi: u64) -> u64 {
        lo + self.below(hi - lo + 1)
    }
    pub fn chance(&mut self, num: u64, den: u64) -> bool {
        self.below(den) < num
    }
    pub fn pick<'a, T>(&mut self, xs: &'a [T]) -> &'a T {
        &xs[self.below(xs.len() as u64) as usize]
    }
    pub fn bytes(&mut self, n: usize) -> Vec<u8> {
        (0..n).map(|_| self.next() as u8).collect()
    }
    pub fn u32(&mut self) -> u32 {
        self.next() as u32
    }
}

pub fn hex(b: &[u8]) -> String {
    if b.is_empty() {
        return "-".to_string();
    }
    let mut s = String::with_capacity(b.len() * 2);
    for x in b {
        let _ = write!(s, "{:02x}", x);
    }
    s
}
pub fn unhex(s: &str) -> Vec<u8> {
    if s == "-" {
        return vec![];
    }
    (0..s.len() / 2).map(|i| u8::from_str_radix(&s[2 * i..2 * i + 2], 16).unwrap_or(0)).collect()
}

/// Output of one harness run: model requests, implementation answers, oracle verdicts, stats.
pub struct Out {
    pub dir: PathBuf,
    cases: BufWriter<File>,
    imp: BufWriter<File>,
    oracle: BufWriter<File>,
    scases: BufWriter<File>,
    simp: BufWriter<File>,
    pub n_spec: u64,
    pub n_cases: u64,
    pub n_oracle: u64,
    pub n_fail: u64,
    pub stats: BTreeMap<String, u64>,
    pub samples: Vec<String>,
    pub nontrivial: std::collections::BTreeSet<u64>,
}
impl Out {
    pub fn new(dir: &Path) -> Self {
        std::fs::create_dir_all(dir).expect("mkdir out");
        let f = |n: &str| BufWriter::new(File::create(dir.join(n)).expect("create out file"));
        Out {
            dir: dir.to_path_buf(),
            cases: f("cases.txt"),
            imp: f("impl.txt"),
            oracle: f("oracle.txt"),
            scases: f("scases.txt"),
            simp: f("simpl.txt"),
            n_spec: 0,
            n_cases: 0,
            n_oracle: 0,
            n_fail: 0,
            stats: BTreeMap::new(),
            samples: vec![],
            nontrivial: Default::default(),
        }
    }
    /// One model request line and the implementation's canonical answer to the same request.
    pub fn case(&mut self, req: &str, imp: &str) {
        debug_assert!(!req.contains('\n') && !imp.contains('\n'));
        writeln!(self.cases, "{req}").ok();
        writeln!(self.imp, "{imp}").ok();
        if self.samples.len() < 4 && req.len() < 400 {
            self.samples.push(format!("{req} => {imp}"));
        }
        self.n_cases += 1;
    }
    /// A request answered by the Lean *Spec* (reference written from the published format) and the
    /// implementation's answer: a difference is a concrete failing input for "equals the reference".
    pub fn spec_case(&mut self, req: &str, imp: &str) {
        writeln!(self.scases, "{req}").ok();
        writeln!(self.simp, "{imp}").ok();
        self.n_spec += 1;
    }
    /// Property oracle evaluated on the implementation. `tag` classifies a failure (used to match known findings).
    pub fn oracle(&mut self, ok: bool, tag: &str, case: &str) {
        self.n_oracle += 1;
        if !ok {
            self.n_fail += 1;
            writeln!(self.oracle, "FAIL\t{tag}\t{case}").ok();
        }
    }
    pub fn known(&mut self, tag: &str, case: &str) {
        writeln!(self.oracle, "INFO\t{tag}\t{case}").ok();
    }
    pub fn stat(&mut self, k: &str) {
        *self.stats.entry(k.to_string()).or_insert(0) += 1;
    }
    pub fn stat_n(&mut self, k: &str, n: u64) {
        *self.stats.entry(k.to_string()).or_insert(0) += n;
    }
    /// record a distinct non-trivial case by a hash of its canonical form
    pub fn nontrivial(&mut self, canon: &[u8]) {
        let mut h: u64 = 0xcbf29ce484222325;
        for b in canon {
            h ^= *b as u64;
            h = h.wrapping_mul(0x100000001b3);
        }
        self.nontrivial.insert(h);
    }
    pub fn finish(mut self) {
        self.cases.flush().ok();
        self.imp.flush().ok();
        self.oracle.flush().ok();
        self.scases.flush().ok();
        self.simp.flush().ok();
        let mut s = String::from("{");
        let _ = write!(
            s,
            "\"spec_cases\":{},\"cases\":{},\"oracle_evals\":{},\"oracle_fail\":{},\"distinct_nontrivial\":{},\"distribution\":{{",
            self.n_spec,
            self.n_cases,
            self.n_oracle,
            self.n_fail,
            self.nontrivial.len()
        );
        let mut first = true;
        for (k, v) in &self.stats {
            if !first {
                s.push(',');
            }
            first = false;
            let _ = write!(s, "{:?}:{}", k, v);
        }
        s.push_str("},\"samples\":[");
        for (i, x) in self.samples.iter().enumerate() {
            if i > 0 {
                s.push(',');
            }
            let _ = write!(s, "{:?}", x);
        }
        s.push_str("]}");
        std::fs::write(self.dir.join("stats.json"), s).expect("write stats");
    }
}

pub struct Ctx {
    pub seed: u64,
    pub thorough: bool,
    pub out: Out,
    pub rng: Rng,
    pub corpus: PathBuf,
}
