//! C18 (WDL files): write → parse → write; MAOF offsets checked by the model's layout function and by an
//! independent Lean chunk walker on the real bytes.
use crate::c18_wdt::canon_rle;
use crate::common::*;
use std::io::Cursor;
use wow_wdl::conversion::convert_wdl_file;
use wow_wdl::parser::WdlParser;
use wow_wdl::types::{BoundingBox, HeightMapTile, HolesData, M2Placement, M2VisibilityInfo, ModelPlacement, Vec3d, WdlFile};
use wow_wdl::version::WdlVersion;

const VERS: [WdlVersion; 9] = [WdlVersion::Vanilla, WdlVersion::Wotlk, WdlVersion::Cataclysm, WdlVersion::Mop, WdlVersion::Wod,
    WdlVersion::Legion, WdlVersion::Bfa, WdlVersion::Shadowlands, WdlVersion::Dragonflight];

fn fbits(rng: &mut Rng) -> f32 { f32::from_bits(match rng.below(5) { 0 => 0, 1 => 0x7FC0_0001, 2 => 0xFF80_0000, _ => rng.u32() }) }
fn v3(rng: &mut Rng) -> Vec3d { Vec3d::new(fbits(rng), fbits(rng), fbits(rng)) }

/// content of a file, floats by bits, hash maps sorted — the comparison the property asks for
fn content(f: &WdlFile) -> String {
    let mut s = String::new();
    let mut keys: Vec<_> = f.heightmap_tiles.keys().copied().collect(); keys.sort_by_key(|k| (k.1, k.0));
    for k in &keys { let t = &f.heightmap_tiles[k]; s.push_str(&format!("T{},{}:{:?}{:?};", k.0, k.1, t.outer_values, t.inner_values)); }
    let mut hk: Vec<_> = f.holes_data.keys().copied().collect(); hk.sort_by_key(|k| (k.1, k.0));
    for k in &hk { s.push_str(&format!("H{},{}:{:?};", k.0, k.1, f.holes_data[k].hole_masks)); }
    s.push_str(&format!("N{:?};I{:?};", f.wmo_filenames, f.wmo_indices));
    let v = |v: &Vec3d| format!("{:08x},{:08x},{:08x}", v.x.to_bits(), v.y.to_bits(), v.z.to_bits());
    for p in &f.wmo_placements { s.push_str(&format!("P{},{},{},{},{},{},{},{},{},{};", p.id, p.wmo_id, v(&p.position), v(&p.rotation), v(&p.bounds.min), v(&p.bounds.max), p.flags, p.doodad_set, p.name_set, p.padding)); }
    for (tag, l) in [("D", &f.m2_placements), ("M", &f.wmo_legion_placements)] { for p in l { s.push_str(&format!("{tag}{},{},{},{},{:08x},{};", p.id, p.m2_id, v(&p.position), v(&p.rotation), p.scale.to_bits(), p.flags)); } }
    for (tag, l) in [("X", &f.m2_visibility), ("Y", &f.wmo_legion_visibility)] { for p in l { s.push_str(&format!("{tag}{},{},{:08x};", v(&p.bounds.min), v(&p.bounds.max), p.radius.to_bits())); } }
    s
}

fn one(ctx: &mut Ctx, vi: usize) {
    let ver = VERS[vi];
    let mut f = WdlFile::with_version(ver);
    let rng = &mut ctx.rng;
    let ntiles = match rng.below(6) { 0 => 0, 1 => 1, 2 => 2, 5 if ctx.thorough => 4096, _ => rng.range(3, 40) as usize };
    let mut coords: Vec<(u32, u32)> = vec![];
    if ntiles == 4096 { for y in 0..64 { for x in 0..64 { coords.push((x, y)); } } }
    else if ntiles == 1 { coords.push(*rng.pick(&[(0, 0), (63, 0), (0, 63), (63, 63), (31, 17)])); }
    else { while coords.len() < ntiles { let c = (rng.below(64) as u32, rng.below(64) as u32); if !coords.contains(&c) { coords.push(c); } } }
    let holes_mode = rng.below(3); // 0 none, 1 all, 2 some
    let mut nholes = 0usize;
    for &c in &coords {
        let mut t = HeightMapTile::new();
        for v in t.outer_values.iter_mut().chain(t.inner_values.iter_mut()) { *v = rng.next() as i16; }
        f.heightmap_tiles.insert(c, t);
        let with_hole = match holes_mode { 0 => false, 1 => true, _ => rng.chance(1, 2) };
        if with_hole { let mut h = HolesData::new(); for m in h.hole_masks.iter_mut() { *m = rng.next() as u16; } f.holes_data.insert(c, h); if ver.has_maho_chunk() { nholes += 1; } }
    }
    if ver.has_wmo_chunks() && rng.chance(2, 3) {
        let n = rng.range(1, 3);
        for i in 0..n { f.wmo_filenames.push(format!("World\\wmo\\w{i}.wmo")); f.wmo_indices.push(rng.u32()); }
        for _ in 0..rng.range(0, 3) { f.wmo_placements.push(ModelPlacement { id: rng.u32(), wmo_id: rng.u32(), position: v3(rng), rotation: v3(rng),
            bounds: BoundingBox::new(v3(rng), v3(rng)), flags: rng.next() as u16, doodad_set: rng.next() as u16, name_set: rng.next() as u16, padding: rng.next() as u16 }); }
    }
    if ver.has_ml_chunks() && rng.chance(2, 3) {
        for _ in 0..rng.range(0, 3) { f.m2_placements.push(M2Placement { id: rng.u32(), m2_id: rng.u32(), position: v3(rng), rotation: v3(rng), scale: fbits(rng), flags: rng.u32() }); }
        for _ in 0..rng.range(0, 3) { f.m2_visibility.push(M2VisibilityInfo { bounds: BoundingBox::new(v3(rng), v3(rng)), radius: fbits(rng) }); }
        for _ in 0..rng.range(0, 2) { f.wmo_legion_placements.push(M2Placement { id: rng.u32(), m2_id: rng.u32(), position: v3(rng), rotation: v3(rng), scale: fbits(rng), flags: rng.u32() }); }
        for _ in 0..rng.range(0, 2) { f.wmo_legion_visibility.push(M2VisibilityInfo { bounds: BoundingBox::new(v3(rng), v3(rng)), radius: fbits(rng) }); }
    }
    let desc = format!("ver={:?} tiles={} holes_mode={} holes_written={} wmo={} ml={}", ver, coords.len(), holes_mode, nholes, f.wmo_filenames.len(), f.m2_placements.len());
    let parser = WdlParser::with_version(ver);
    let mut cur = Cursor::new(Vec::new());
    if let Err(e) = parser.write(&mut cur, &f) { ctx.out.oracle(false, "wdl-write-fails", &format!("{desc}: {e}")); return; }
    let bytes = cur.into_inner();
    ctx.out.stat(&format!("wdl.{:?}", ver));
    ctx.out.stat(&format!("wdl.holes_mode{}", holes_mode));
    // independent walk of the real bytes by the Lean model
    ctx.out.case(&format!("wdlcheck {}", canon_rle(&bytes)), &format!("ok tiles={} holes={}", coords.len(), nholes));
    // layout function of the model vs the MAOF table in the real bytes
    let maof_pos = bytes.windows(4).position(|w| w == b"FOAM");
    if let Some(p) = maof_pos {
        let mut sorted = coords.clone(); sorted.sort_by_key(|c| (c.1, c.0));
        let tiles_arg = if sorted.is_empty() { "-".to_string() } else { sorted.iter().map(|c| format!("{}:{}", c.1 * 64 + c.0, (ver.has_maho_chunk() && f.holes_data.contains_key(c)) as u8)).collect::<Vec<_>>().join(";") };
        let tab = &bytes[p + 8..p + 8 + 16384];
        let mut offs = vec![];
        for i in 0..4096 { let o = u32::from_le_bytes([tab[4 * i], tab[4 * i + 1], tab[4 * i + 2], tab[4 * i + 3]]); if o != 0 { offs.push(format!("{i}:{o}")); } }
        ctx.out.case(&format!("wdllayout {} {}", p, tiles_arg), &if offs.is_empty() { "-".to_string() } else { offs.join(",") });
    }
    // property oracle: parse back, equal content, second write identical
    let parsed = match parser.parse(&mut Cursor::new(&bytes)) { Ok(p) => p, Err(e) => { ctx.out.oracle(false, "wdl-reparse-fails", &format!("{desc}: {e}")); return; } };
    if !ver.has_maho_chunk() { f.holes_data.clear(); }
    ctx.out.oracle(content(&parsed) == content(&f), "wdl-roundtrip", &desc);
    let mut cur2 = Cursor::new(Vec::new());
    let _ = parser.write(&mut cur2, &parsed);
    ctx.out.oracle(cur2.into_inner() == bytes, "wdl-second-write-differs", &desc);
    if coords.len() >= 2 { ctx.out.nontrivial(desc.as_bytes()); }
    // conversion keeps all tile data
    let to = VERS[ctx.rng.below(9) as usize];
    if let Ok(c) = convert_wdl_file(&parsed, to) {
        let same_tiles = { let mut a: Vec<_> = c.heightmap_tiles.iter().map(|(k, t)| (*k, t.outer_values.clone(), t.inner_values.clone())).collect(); a.sort();
            let mut b: Vec<_> = parsed.heightmap_tiles.iter().map(|(k, t)| (*k, t.outer_values.clone(), t.inner_values.clone())).collect(); b.sort(); a == b };
        ctx.out.oracle(same_tiles, "wdl-convert-loses-tiles", &format!("{desc} -> {:?}", to));
        let mut c3 = Cursor::new(Vec::new());
        if WdlParser::with_version(to).write(&mut c3, &c).is_ok() {
            let b3 = c3.into_inner();
            let back = WdlParser::with_version(to).parse(&mut Cursor::new(&b3));
            ctx.out.oracle(back.map(|b| b.heightmap_tiles.len() == parsed.heightmap_tiles.len()).unwrap_or(false), "wdl-convert-loses-tiles", &format!("{desc} -> {:?} -> write -> read", to));
        }
    }
}

pub fn run(ctx: &mut Ctx) {
    let n = if ctx.thorough { 600 } else { 90 };
    for i in 0..n {
        let vi = i % 9;
        let r = std::panic::catch_unwind(std::panic::AssertUnwindSafe(|| one(ctx, vi)));
        if r.is_err() { ctx.out.oracle(false, "wdl-panic", &format!("version index {vi}")); }
    }
}
