//! C18 (WDT files): write → parse → write, against the Lean chunk-level model and the property oracle.
use crate::common::*;
use std::io::Cursor;
use wow_wdt::chunks::maid::MaidSection;
use wow_wdt::chunks::{MaidChunk, MainEntry, ModfChunk, ModfEntry, MphdFlags, MwmoChunk};
use wow_wdt::conversion::convert_wdt;
use wow_wdt::version::WowVersion;
use wow_wdt::{WdtFile, WdtReader, WdtWriter};

pub const VERS: [WowVersion; 10] = [WowVersion::Classic, WowVersion::TBC, WowVersion::WotLK, WowVersion::Cataclysm, WowVersion::MoP,
    WowVersion::WoD, WowVersion::Legion, WowVersion::BfA, WowVersion::Shadowlands, WowVersion::Dragonflight];
fn ver_idx(v: WowVersion) -> usize { VERS.iter().position(|x| *x == v).unwrap_or(0) }

/// run-length hex, canonical spelling (mirror of rleEncode in Dispatch18b.lean): zero runs of length >= 8
/// become `zN`, everything else literal hex, pieces joined by '.'
pub fn canon_rle(b: &[u8]) -> String {
    if b.is_empty() { return "-".into(); }
    let mut out: Vec<String> = vec![];
    let mut lit: Vec<u8> = vec![];
    let mut i = 0;
    while i < b.len() {
        if b[i] == 0 {
            let mut j = i;
            while j < b.len() && b[j] == 0 { j += 1; }
            if j - i >= 8 {
                if !lit.is_empty() { out.push(hex(&lit)); lit.clear(); }
                out.push(format!("z{}", j - i));
            } else { lit.extend(std::iter::repeat(0).take(j - i)); }
            i = j;
        } else { lit.push(b[i]); i += 1; }
    }
    if !lit.is_empty() { out.push(hex(&lit)); }
    out.join(".")
}

pub fn unrle(s: &str) -> Vec<u8> {
    if s == "-" { return vec![]; }
    let mut out = vec![];
    for p in s.split('.') { if let Some(n) = p.strip_prefix('z') { out.extend(std::iter::repeat(0u8).take(n.parse().unwrap_or(0))); } else { out.extend(unhex(p)); } }
    out
}

#[derive(Clone)]
struct Abs {
    ver: usize,
    flags: u32,
    words: [u32; 7],
    main: Vec<(usize, usize, u32, u32)>, // x, y, flags, area
    maid: Option<(usize, Vec<(usize, usize, usize, u32)>)>, // section count, (section, x, y, id)
    mwmo: Option<Vec<String>>,
    modf: Option<Vec<[u32; 16]>>, // raw dwords of each 64-byte entry
}

fn mphd_bytes(a: &Abs) -> Vec<u8> {
    let mut v = a.flags.to_le_bytes().to_vec();
    for w in a.words { v.extend_from_slice(&w.to_le_bytes()); }
    v
}
fn main_bytes(a: &Abs) -> Vec<u8> {
    let mut v = vec![0u8; 64 * 64 * 8];
    for &(x, y, f, ar) in &a.main {
        let o = (y * 64 + x) * 8;
        v[o..o + 4].copy_from_slice(&f.to_le_bytes());
        v[o + 4..o + 8].copy_from_slice(&ar.to_le_bytes());
    }
    v
}
fn maid_bytes(a: &Abs) -> Option<Vec<u8>> {
    a.maid.as_ref().map(|(n, ents)| {
        let mut v = vec![0u8; n * 16384];
        for &(s, x, y, id) in ents { let o = (s * 4096 + y * 64 + x) * 4; v[o..o + 4].copy_from_slice(&id.to_le_bytes()); }
        v
    })
}
fn modf_bytes(a: &Abs) -> Option<Vec<u8>> {
    a.modf.as_ref().map(|es| es.iter().flat_map(|e| e.iter().flat_map(|w| w.to_le_bytes())).collect())
}
fn names_str(n: &Option<Vec<String>>) -> String {
    match n { None => "none".into(), Some(v) if v.is_empty() => "e".into(), Some(v) => v.iter().map(|s| hex(s.as_bytes())).collect::<Vec<_>>().join(";") }
}
fn opt_rle(b: &Option<Vec<u8>>) -> String { match b { None => "none".into(), Some(v) => canon_rle(v) } }

fn build(a: &Abs) -> WdtFile {
    let mut w = WdtFile::new(VERS[a.ver]);
    w.mphd.flags = MphdFlags::from_bits_truncate(a.flags);
    w.mphd.something = a.words[0];
    w.mphd.unused.copy_from_slice(&a.words[1..7]);
    if a.flags & 0x200 != 0 {
        w.mphd.lgt_file_data_id = Some(a.words[0]); w.mphd.occ_file_data_id = Some(a.words[1]); w.mphd.fogs_file_data_id = Some(a.words[2]);
        w.mphd.mpv_file_data_id = Some(a.words[3]); w.mphd.tex_file_data_id = Some(a.words[4]); w.mphd.wdl_file_data_id = Some(a.words[5]);
        w.mphd.pd4_file_data_id = Some(a.words[6]);
    }
    for &(x, y, f, ar) in &a.main { if let Some(e) = w.main.get_mut(x, y) { *e = MainEntry { flags: f, area_id: ar }; } }
    if let Some((n, ents)) = &a.maid {
        let mut m = MaidChunk::with_section_count(*n);
        for &(s, x, y, id) in ents { let _ = m.set(MaidSection::all()[s], x, y, id); }
        w.maid = Some(m);
    }
    if let Some(ns) = &a.mwmo { let mut c = MwmoChunk::new(); for n in ns { c.add_filename(n.clone()); } w.mwmo = Some(c); }
    if let Some(es) = &a.modf {
        let mut c = ModfChunk::new();
        for e in es {
            let f = |i: usize| f32::from_bits(e[i]);
            c.add_entry(ModfEntry { id: e[0], unique_id: e[1], position: [f(2), f(3), f(4)], rotation: [f(5), f(6), f(7)],
                lower_bounds: [f(8), f(9), f(10)], upper_bounds: [f(11), f(12), f(13)], flags: e[14] as u16, doodad_set: (e[14] >> 16) as u16,
                name_set: e[15] as u16, scale: (e[15] >> 16) as u16 });
        }
        w.modf = Some(c);
    }
    w
}
/// field-by-field canonical view of a parsed file (floats by bit pattern), independent of the crate's writer
fn view(w: &WdtFile) -> String {
    let mut mphd = w.mphd.flags.bits().to_le_bytes().to_vec();
    if w.mphd.flags.bits() & 0x200 != 0 {
        for id in [w.mphd.lgt_file_data_id, w.mphd.occ_file_data_id, w.mphd.fogs_file_data_id, w.mphd.mpv_file_data_id,
                   w.mphd.tex_file_data_id, w.mphd.wdl_file_data_id, w.mphd.pd4_file_data_id] { mphd.extend_from_slice(&id.unwrap_or(0xDEAD_BEEF).to_le_bytes()); }
    } else {
        mphd.extend_from_slice(&w.mphd.something.to_le_bytes());
        for u in w.mphd.unused { mphd.extend_from_slice(&u.to_le_bytes()); }
    }
    let mut main = Vec::with_capacity(32768);
    for y in 0..64 { for x in 0..64 { let e = w.main.get(x, y).copied().unwrap_or_default(); main.extend_from_slice(&e.flags.to_le_bytes()); main.extend_from_slice(&e.area_id.to_le_bytes()); } }
    // sections past the eighth have no accessor: they count (zero-filled by the generator), so a reader that drops them shows
    let maid = w.maid.as_ref().map(|m| { let mut v = vec![]; for s in 0..m.section_count() { for y in 0..64 { for x in 0..64 {
        let id = if s < 8 { m.get(MaidSection::all()[s], x, y).unwrap_or(0) } else { 0 };
        v.extend_from_slice(&id.to_le_bytes()); } } } v });
    let mwmo = w.mwmo.as_ref().map(|m| m.filenames.clone());
    let modf = w.modf.as_ref().map(|m| m.entries.iter().flat_map(|e| {
        let mut v = vec![]; v.extend_from_slice(&e.id.to_le_bytes()); v.extend_from_slice(&e.unique_id.to_le_bytes());
        for f in e.position.iter().chain(&e.rotation).chain(&e.lower_bounds).chain(&e.upper_bounds) { v.extend_from_slice(&f.to_bits().to_le_bytes()); }
        for h in [e.flags, e.doodad_set, e.name_set, e.scale] { v.extend_from_slice(&h.to_le_bytes()); } v }).collect::<Vec<u8>>());
    format!("{} {} {} {} {} {}", ver_idx(w.version()), canon_rle(&mphd), canon_rle(&main), opt_rle(&maid), names_str(&mwmo), opt_rle(&modf))
}

fn gen_abs(rng: &mut Rng, well_formed: bool) -> Abs {
    let ver = rng.below(10) as usize;
    let wmo_only = rng.chance(1, 3);
    let mut flags: u32 = match rng.below(5) { 0 => 0, 1 => rng.u32() & 0xFDFE, 2 => 0x000E, 3 => 0x0040 | 0x0080, _ => rng.u32() & 0x01FE };
    if wmo_only { flags |= 1; } else { flags &= !1; }
    let with_maid = if well_formed { ver >= 7 && rng.chance(2, 3) } else { rng.chance(1, 3) };
    if with_maid { flags |= 0x200; } else { flags &= !0x200; }
    let mut words = [0u32; 7];
    if rng.chance(1, 2) { for w in &mut words { *w = rng.u32(); } }
    let ntiles = match rng.below(5) { 0 => 0, 1 => 1, 2 => 4096, _ => rng.range(2, 200) as usize };
    let mut main = vec![];
    if ntiles == 4096 { for y in 0..64 { for x in 0..64 { main.push((x, y, 1 | (rng.u32() & 2), rng.u32())); } } }
    else if ntiles == 1 { let c = *rng.pick(&[(0usize, 0usize), (63, 0), (0, 63), (63, 63)]); main.push((c.0, c.1, 1, rng.u32())); }
    else { for _ in 0..ntiles { main.push((rng.below(64) as usize, rng.below(64) as usize, rng.u32() & 0xF, rng.u32() & 0xFFFF)); } }
    let maid = if with_maid {
        // the reader derives the section count from the chunk size: any count is a file-id table (later clients have more than 8)
        let n = if rng.chance(1, 2) { 8 } else if well_formed { rng.range(1, 12) as usize } else { rng.range(1, 8) as usize };
        let k = rng.range(0, 50) as usize;
        Some((n, (0..k).map(|_| (rng.below(n.min(8) as u64) as usize, rng.below(64) as usize, rng.below(64) as usize, rng.u32())).collect()))
    } else { None };
    let name = |rng: &mut Rng| -> String { match rng.below(4) { 0 => "World\\wmo\\Dungeon\\KL_Karazhan\\Karazhan.wmo".into(), 1 => "a".into(), 2 => "Ünï.wmo".into(), _ => format!("w{}.wmo", rng.below(1000)) } };
    let should_write = wmo_only || ver < 3;
    let mwmo = if well_formed {
        if should_write && rng.chance(4, 5) { Some(if wmo_only { vec![name(rng)] } else if rng.chance(3, 4) { vec![] } else { vec![name(rng), name(rng)] }) } else { None }
    } else if rng.chance(1, 2) { Some(if rng.chance(1, 2) { vec![] } else { vec![name(rng)] }) } else { None };
    let modf = if wmo_only || (!well_formed && rng.chance(1, 4)) {
        let n = rng.range(0, 3) as usize;
        Some((0..n).map(|_| { let mut e = [0u32; 16]; for w in &mut e { *w = match rng.below(4) { 0 => 0, 1 => 0x7FC0_0001, 2 => 0xFFFF_FFFF, _ => rng.u32() }; } e }).collect())
    } else { None };
    Abs { ver, flags, words, main, maid, mwmo, modf }
}

fn one(ctx: &mut Ctx, a: &Abs, well_formed: bool) {
    let w = build(a);
    let mut buf = Vec::new();
    if let Err(e) = WdtWriter::new(&mut buf).write(&w) { ctx.out.oracle(false, "wdt-write-fails", &e.to_string()); return; }
    let desc = format!("ver={} flags={:#x} tiles={} maid={:?} mwmo={:?} modf={}", a.ver, a.flags, a.main.len(), a.maid.as_ref().map(|m| m.0), a.mwmo, a.modf.as_ref().map(|m| m.len() as i64).unwrap_or(-1));
    // model writes the same abstract file from payloads the harness built itself
    ctx.out.case(&format!("wdtwrite {} {} {} {} {} {}", a.ver, canon_rle(&mphd_bytes(a)), canon_rle(&main_bytes(a)), opt_rle(&maid_bytes(a)), names_str(&a.mwmo), opt_rle(&modf_bytes(a))), &canon_rle(&buf));
    // fixed-layout payloads through the generic record codec of the model (Lib.Record): the object's field values, written with
    // the layout's widths, are the payload bytes the writer produced
    {
        let chunk = |magic: &[u8; 4]| -> Option<&[u8]> { let mut p = 0usize; while p + 8 <= buf.len() { let sz = u32::from_le_bytes([buf[p + 4], buf[p + 5], buf[p + 6], buf[p + 7]]) as usize; if p + 8 + sz > buf.len() { return None; } if &buf[p..p + 4] == magic { return Some(&buf[p + 8..p + 8 + sz]); } p += 8 + sz; } None };
        if let Some(pl) = chunk(b"DHPM") {
            let mut vals: Vec<u32> = vec![w.mphd.flags.bits()];
            if a.flags & 0x200 != 0 { for id in [w.mphd.lgt_file_data_id, w.mphd.occ_file_data_id, w.mphd.fogs_file_data_id, w.mphd.mpv_file_data_id, w.mphd.tex_file_data_id, w.mphd.wdl_file_data_id, w.mphd.pd4_file_data_id] { vals.push(id.unwrap_or(0)); } }
            else { vals.push(w.mphd.something); vals.extend_from_slice(&w.mphd.unused); }
            ctx.out.case(&format!("rec 4,4,4,4,4,4,4,4 {}", vals.iter().map(|v| v.to_string()).collect::<Vec<_>>().join(",")), &hex(pl));
            ctx.out.stat("wdt.rec.mphd");
        }
        if let (Some(pl), Some(m)) = (chunk(b"FDOM"), w.modf.as_ref()) {
            for (k, e) in m.entries.iter().enumerate().take(3) {
                if (k + 1) * 64 > pl.len() { break; }
                let mut vals: Vec<u64> = vec![e.id as u64, e.unique_id as u64];
                for f in e.position.iter().chain(&e.rotation).chain(&e.lower_bounds).chain(&e.upper_bounds) { vals.push(f.to_bits() as u64); }
                for h in [e.flags, e.doodad_set, e.name_set, e.scale] { vals.push(h as u64); }
                ctx.out.case(&format!("rec 4,4,4,4,4,4,4,4,4,4,4,4,4,4,2,2,2,2 {}", vals.iter().map(|v| v.to_string()).collect::<Vec<_>>().join(",")), &hex(&pl[k * 64..k * 64 + 64]));
                ctx.out.stat("wdt.rec.modf");
            }
        }
        if let Some(pl) = chunk(b"NIAM") {
            // three tiles of the grid: first, last, and one that is set (if any)
            let mut picks = vec![(0usize, 0usize), (63, 63)]; if let Some(&(x, y, _, _)) = a.main.first() { picks.push((x, y)); }
            for (x, y) in picks { let o = (y * 64 + x) * 8; if o + 8 > pl.len() { continue; } let e = w.main.get(x, y).copied().unwrap_or_default();
                ctx.out.case(&format!("rec 4,4 {},{}", e.flags, e.area_id), &hex(&pl[o..o + 8])); ctx.out.stat("wdt.rec.main"); }
        }
    }
    let hint = ctx.rng.below(10) as usize;
    let parsed = WdtReader::new(Cursor::new(&buf), VERS[hint]).read();
    ctx.out.case(&format!("wdtread {} {}", hint, canon_rle(&buf)), &match &parsed { Ok(p) => format!("ok {}", view(p)), Err(e) => format!("err {}", err_kind(e)) });
    ctx.out.stat(&format!("wdt.ver{}.{}", a.ver, if a.flags & 1 != 0 { "wmo_only" } else { "terrain" }));
    if a.maid.is_some() { ctx.out.stat("wdt.maid"); }
    if a.mwmo.is_some() { ctx.out.stat("wdt.mwmo"); }
    if !well_formed { ctx.out.stat("wdt.not_well_formed"); return; }
    let p = match parsed { Ok(p) => p, Err(e) => { ctx.out.oracle(false, "wdt-reparse-fails", &format!("{desc}: {e}")); return; } };
    // the property: equal content (floats by bits; version_config is re-detected, not content)
    let expect = format!("{} {} {} {} {}", canon_rle(&mphd_bytes(a)), canon_rle(&main_bytes(a)), opt_rle(&maid_bytes(a)), names_str(&a.mwmo), opt_rle(&modf_bytes(a)));
    let got = view(&p); let got = got.splitn(2, ' ').nth(1).unwrap_or("").to_string();
    ctx.out.oracle(got == expect, "wdt-roundtrip", &desc);
    let mut buf2 = Vec::new();
    let _ = WdtWriter::new(&mut buf2).write(&p);
    ctx.out.oracle(buf2 == buf, "wdt-second-write-differs", &format!("{desc}: {} vs {} bytes", buf.len(), buf2.len()));
    ctx.out.nontrivial(desc.as_bytes());
    // conversion keeps all tile data
    let to = ctx.rng.below(10) as usize;
    let mut c = p.clone();
    if convert_wdt(&mut c, VERS[a.ver], VERS[to]).is_ok() {
        ctx.out.oracle(c.main == p.main, "wdt-convert-loses-tiles", &format!("{desc} -> ver {to}"));
        // compared through `view` (floats by their bits): derived PartialEq makes a file with a NaN in a MODF entry unequal to itself
        if to == a.ver { ctx.out.oracle(view(&c) == view(&p), "wdt-convert-same-version-changes", &desc); }
        let mut b3 = Vec::new();
        let _ = WdtWriter::new(&mut b3).write(&c);
        let back = WdtReader::new(Cursor::new(&b3), VERS[to]).read();
        ctx.out.oracle(back.as_ref().map(|b| b.main == p.main).unwrap_or(false), "wdt-convert-loses-tiles", &format!("{desc} -> ver {to} -> write -> read"));
        ctx.out.stat(&format!("wdt.convert.{}", if to >= 3 && a.ver < 3 { "up_cata" } else if to < 3 && a.ver >= 3 { "down_cata" } else { "same_side" }));
    }
    // truncations of a valid file: outcome class against the model
    if ctx.rng.chance(1, 6) {
        for cut in [0usize, 7, 8, 11, 12, 13, 19, 20, 30, 52, 53, 60, buf.len() - 1, buf.len() - 7, buf.len() / 2] {
            if cut >= buf.len() { continue; }
            let r = WdtReader::new(Cursor::new(&buf[..cut]), VERS[hint]).read();
            ctx.out.case(&format!("wdtread {} {}", hint, canon_rle(&buf[..cut])), &match &r { Ok(p) => format!("ok {}", view(p)), Err(e) => format!("err {}", err_kind(e)) });
            ctx.out.stat("wdt.truncated");
        }
    }
}

fn err_kind(e: &wow_wdt::error::Error) -> &'static str {
    use wow_wdt::error::Error as E;
    match e {
        E::Io(_) => "truncated",
        E::InvalidChunkSize { .. } => "size",
        E::InvalidVersion(_) => "version",
        E::MissingChunk(_) => "missing",
        E::InvalidChunkData { chunk, .. } if chunk == "MPHD" => "flags",
        E::InvalidChunkData { .. } => "size",
        _ => "other",
    }
}

pub fn run(ctx: &mut Ctx) {
    let n = if ctx.thorough { 1500 } else { 120 };
    for i in 0..n {
        let mut rng = ctx.rng.clone();
        let wf = i % 5 != 4;
        let a = gen_abs(&mut rng, wf);
        ctx.rng = rng;
        let r = std::panic::catch_unwind(std::panic::AssertUnwindSafe(|| one(ctx, &a, wf)));
        if r.is_err() { ctx.out.oracle(false, "wdt-panic", &format!("ver={} flags={:#x}", a.ver, a.flags)); }
    }
}
