//! C09 — parallel extraction equals sequential reading, for every thread count, batch size and request list.
use crate::common::*;
use wow_mpq::single_archive_parallel::{ParallelArchive, ParallelConfig, extract_with_config};
use wow_mpq::{Archive, ArchiveBuilder, ListfileOption};

struct World { path: std::path::PathBuf, names: Vec<String>, present: Vec<bool>, seq: Vec<Option<Vec<u8>>>, _dir: tempfile::TempDir }

fn build(rng: &mut Rng) -> World { let dir = tempfile::tempdir().expect("tmp"); build_at(rng, dir, 0) }

/// generation g > 0: same path, same names, different bytes, and a different set of absent names
fn build_at(rng: &mut Rng, dir: tempfile::TempDir, g: usize) -> World {
    let path = dir.path().join("par.mpq");
    // generation 2 carries no (listfile), generation 3 an external one that names only every second member: a name resolves
    // through the hash tables, not through the listing
    let lf = match g { 2 => ListfileOption::None, 3 => { let lp = dir.path().join("partial-listfile.txt");
            let txt: String = (0..48).filter(|i| i % 2 == 0).map(|i| format!("Data\\Sub{}\\File_{:02}.txt\r\n", i % 3, i)).collect(); let _ = std::fs::write(&lp, txt); ListfileOption::External(lp) }
        _ => ListfileOption::Generate };
    let mut b = ArchiveBuilder::new().listfile_option(lf);
    let mut names = vec![]; let mut present = vec![];
    for i in 0..48 {
        let name = format!("Data\\Sub{}\\File_{:02}.txt", i % 3, i);
        let there = (i + g) % 6 != 5;
        if there { let len = match i % 5 { 0 => 0, 1 => 10, 2 => 5000, 3 => 70000, _ => rng.range(1, 3000) as usize };
            let data: Vec<u8> = (0..len).map(|j| ((j / 7 + i + 13 * g) % 251) as u8).collect();
            // every storage form a name can resolve to: default, encrypted + compressed, encrypted with the position-adjusted key
            // and stored as is, stored plain, bzip2 - the parallel paths read what the sequential read reads
            b = match i % 8 { 1 => b.add_file_data_with_encryption(data, &name, 0x02, false, 0), 2 => b.add_file_data_with_encryption(data, &name, 0, true, 0), 3 => b.add_file_data_with_options(data, &name, 0, false, 0),
                5 => b.add_file_data_with_encryption(data, &name, 0x02, true, 0), 6 => b.add_file_data_with_options(data, &name, 0x10, false, 0), _ => b.add_file_data(data, &name) }; }
        names.push(name); present.push(there);
    }
    b.build(&path).expect("build");
    let mut a = Archive::open(&path).expect("open");
    let seq = names.iter().map(|n| a.read_file(n).ok()).collect();
    World { path, names, present, seq, _dir: dir }
}

fn spelled(rng: &mut Rng, n: &str) -> String { match rng.below(4) { 0 => n.to_uppercase(), 1 => n.to_lowercase().replace('\\', "/"), _ => n.to_string() } }

fn req_list(rng: &mut Rng, w: &World, len: usize, missing_at: u64) -> Vec<usize> {
    let good: Vec<usize> = (0..w.names.len()).filter(|i| w.present[*i]).collect();
    let bad: Vec<usize> = (0..w.names.len()).filter(|i| !w.present[*i]).collect();
    let mut v: Vec<usize> = (0..len).map(|_| *rng.pick(&good)).collect();
    if len > 0 { match missing_at { 0 => {}, 1 => v[0] = *rng.pick(&bad), 2 => v[len / 2] = *rng.pick(&bad), 3 => v[len - 1] = *rng.pick(&bad),
        _ => { for _ in 0..3 { let p = rng.below(len as u64) as usize; v[p] = *rng.pick(&bad); } } } }
    // duplicates next to each other and far apart
    if len > 3 { v[1] = v[0]; let l = len - 1; v[l] = v[2]; }
    v
}

fn check(ctx: &mut Ctx, w: &World, what: &str, idx: &[usize], spelled_names: &[String], got: Result<Vec<(String, Result<Vec<u8>, String>)>, String>, mode: &str, skip: bool, k: usize) {
    let bad: Vec<String> = { let mut b: Vec<usize> = idx.iter().copied().filter(|i| !w.present[*i]).collect(); b.sort(); b.dedup(); b.iter().map(|x| x.to_string()).collect() };
    let names_arg = if idx.is_empty() { "-".to_string() } else { idx.iter().map(|x| x.to_string()).collect::<Vec<_>>().join(",") };
    let ans = match &got {
        Err(_) => "fail".to_string(),
        Ok(v) => if v.is_empty() { "-".into() } else { v.iter().map(|(n, r)| format!("{}:{}", spelled_names.iter().position(|s| s == n).map(|p| idx[p]).unwrap_or(999), if r.is_ok() { "o" } else { "e" })).collect::<Vec<_>>().join(",") },
    };
    ctx.out.case(&format!("c09 {} {} {} {} {}", mode, skip as u8, k, names_arg, if bad.is_empty() { "-".to_string() } else { bad.join(",") }), &ans);
    // property oracle: one result per request, in order, each equal to the sequential read
    match got {
        Err(e) => { let should_fail = !skip && idx.iter().any(|i| !w.present[*i]); ctx.out.oracle(should_fail, "parallel-call-fails-unexpectedly", &format!("{what}: {e}")); }
        Ok(v) => {
            let mut ok = v.len() == idx.len();
            if ok { for (p, (n, r)) in v.iter().enumerate() { ok &= *n == spelled_names[p]; ok &= match (r, &w.seq[idx[p]]) { (Ok(d), Some(s)) => d == s, (Err(_), None) => true, _ => false }; } }
            if !skip && idx.iter().any(|i| !w.present[*i]) { ok = false; }
            ctx.out.oracle(ok, "parallel-differs-from-sequential", &format!("{what}: {} requests, {} results", idx.len(), v.len()));
            if ok && idx.len() > 1 { ctx.out.nontrivial(format!("{what}{names_arg}").as_bytes()); }
        }
    }
}

pub fn run(ctx: &mut Ctx) {
    let mut rng = ctx.rng.clone();
    let w = build(&mut rng);
    ctx.rng = rng;
    // CPU contention
    let stop = std::sync::Arc::new(std::sync::atomic::AtomicBool::new(false));
    let burners: Vec<_> = (0..(if ctx.thorough { 12 } else { 4 })).map(|_| { let s = stop.clone(); std::thread::spawn(move || { let mut x = 1u64; while !s.load(std::sync::atomic::Ordering::Relaxed) { x = x.wrapping_mul(6364136223846793005).wrapping_add(1); std::hint::black_box(x); } }) }).collect();
    let lens: &[usize] = if ctx.thorough { &[0, 1, 2, 9, 10, 11, 29, 30, 31, 999, 1000, 1001, 2500, 5001] } else { &[0, 1, 9, 10, 11, 999, 1000, 1001, 2500] };
    let threads: &[usize] = if ctx.thorough { &[1, 2, 3, 8, 32] } else { &[1, 3, 8] };
    let reps = if ctx.thorough { 3 } else { 1 };
    for &len in lens { for &t in threads { for skip in [false, true] { for missing in [0u64, 1, 2, 3, 4] { for _ in 0..reps {
        if len == 0 && missing != 0 { continue; }
        if len >= 999 && (missing == 1 || missing == 3) && !ctx.thorough { continue; }
        let batch = *ctx.rng.pick(&[1usize, 2, 7, 10, 64, len.max(1)]);
        let mut rng = ctx.rng.clone();
        let idx = req_list(&mut rng, &w, len, missing);
        let sp: Vec<String> = idx.iter().map(|i| spelled(&mut rng, &w.names[*i])).collect();
        ctx.rng = rng;
        let refs: Vec<&str> = sp.iter().map(|s| s.as_str()).collect();
        let cfg = ParallelConfig::new().threads(t).batch_size(batch).skip_errors(skip);
        let what = format!("extract_with_config len={len} threads={t} batch={batch} skip={skip} missing={missing}");
        let got = extract_with_config(&w.path, &refs, cfg).map(|v| v.into_iter().map(|(n, r)| (n, r.map_err(|e| e.to_string()))).collect()).map_err(|e| e.to_string());
        let mode = if len > 1000 { "b" } else { "u" };
        let eff = if len > 5000 { batch.max(len / (t * 2)) } else { batch };
        ctx.out.case(&format!("c09eff {} {} {}", len, batch, t), &eff.to_string());
        check(ctx, &w, &what, &idx, &sp, got, mode, skip, eff);
        ctx.out.stat(&format!("c09.{}.{}", if len > 1000 { "batched" } else { "unbatched" }, if skip { "skip" } else { "strict" }));
    } } } } }
    // requests longer than 5000 names take their own splitting path: lengths that do not divide evenly among 2 x threads slices
    if !ctx.thorough {
        for &(len, t, batch) in &[(5001usize, 4usize, 100usize), (5003, 3, 1), (5007, 8, 64)] { for skip in [false, true] { for missing in [0u64, 3] {
            let mut rng = ctx.rng.clone();
            let idx = req_list(&mut rng, &w, len, missing);
            let sp: Vec<String> = idx.iter().map(|i| spelled(&mut rng, &w.names[*i])).collect();
            ctx.rng = rng;
            let refs: Vec<&str> = sp.iter().map(|s| s.as_str()).collect();
            let cfg = ParallelConfig::new().threads(t).batch_size(batch).skip_errors(skip);
            let got = extract_with_config(&w.path, &refs, cfg).map(|v| v.into_iter().map(|(n, r)| (n, r.map_err(|e| e.to_string()))).collect()).map_err(|e| e.to_string());
            let eff = batch.max(len / (t * 2));
            ctx.out.case(&format!("c09eff {} {} {}", len, batch, t), &eff.to_string());
            check(ctx, &w, &format!("extract_with_config len={len} threads={t} batch={batch} skip={skip} missing={missing}"), &idx, &sp, got, "b", skip, eff);
            ctx.out.stat("c09.over5000");
        } } }
    }
    // ParallelArchive methods (strict semantics)
    let pa = ParallelArchive::open(&w.path).expect("open parallel");
    for &len in &[0usize, 1, 5, 40, 300] { for missing in [0u64, 2] { for batch in [1usize, 3, 7, 1000] {
        let mut rng = ctx.rng.clone();
        let idx = req_list(&mut rng, &w, len, if len == 0 { 0 } else { missing });
        let sp: Vec<String> = idx.iter().map(|i| spelled(&mut rng, &w.names[*i])).collect();
        ctx.rng = rng;
        let refs: Vec<&str> = sp.iter().map(|s| s.as_str()).collect();
        let g1 = pa.extract_files_parallel(&refs).map(|v| v.into_iter().map(|(n, d)| (n, Ok(d))).collect()).map_err(|e| e.to_string());
        check(ctx, &w, &format!("extract_files_parallel len={len}"), &idx, &sp, g1, "u", false, 1);
        let g2 = pa.extract_files_batched(&refs, batch).map(|v| v.into_iter().map(|(n, d)| (n, Ok(d))).collect()).map_err(|e| e.to_string());
        check(ctx, &w, &format!("extract_files_batched len={len} batch={batch}"), &idx, &sp, g2, "b", false, batch);
        let g3 = pa.process_files_parallel(&refs, |n, d| Ok((n.to_string(), d))).map(|v| v.into_iter().map(|(n, d)| (n, Ok(d))).collect()).map_err(|e| e.to_string());
        check(ctx, &w, &format!("process_files_parallel len={len}"), &idx, &sp, g3, "u", false, 1);
    } } }
    // extract_matching_parallel: every listed file matching the predicate, each equal to the sequential read
    for pat in ["Sub1", "Sub0", "Sub2", "File_"] {
    let m = pa.extract_matching_parallel(|n| n.contains(pat));
    match m { Ok(v) => { let want: Vec<usize> = (0..w.names.len()).filter(|i| w.present[*i] && w.names[*i].contains(pat)).collect();
            let ok = v.len() == want.len() && v.iter().all(|(n, d)| w.names.iter().position(|x| x == n).map(|i| w.seq[i].as_ref() == Some(d)).unwrap_or(false));
            ctx.out.oracle(ok, "parallel-differs-from-sequential", &format!("extract_matching_parallel {pat}")); }
        Err(e) => ctx.out.oracle(false, "parallel-call-fails-unexpectedly", &format!("extract_matching_parallel {pat}: {e}")) }
    }
    // multi-archive helper
    let paths = vec![w.path.clone(), w.path.clone(), w.path.clone()];
    for i in [0usize, 7, 12] { let r = wow_mpq::parallel::extract_from_multiple_archives(&paths, &w.names[i]);
        match r { Ok(v) => ctx.out.oracle(v.len() == 3 && v.iter().all(|(_, d)| Some(d) == w.seq[i].as_ref()), "parallel-differs-from-sequential", &format!("extract_from_multiple_archives {}", w.names[i])),
            Err(e) => ctx.out.oracle(w.seq[i].is_none(), "parallel-call-fails-unexpectedly", &format!("extract_from_multiple_archives: {e}")) } }
    // the archive at the same path is replaced and extracted again in the same process: nothing a worker thread kept from
    // the first extraction (handles, parsed tables) may show through
    {
        let World { path: _, names: _, present: _, seq: _, _dir } = w;
        let mut dir = Some(_dir);
      for g in 1..=3usize {
        let mut rng = ctx.rng.clone();
        let w2 = build_at(&mut rng, dir.take().expect("dir"), g);
        ctx.rng = rng;
        let pa2 = ParallelArchive::open(&w2.path).expect("open parallel, second generation");
        for rep in 0..3 {
            let idx: Vec<usize> = (0..w2.names.len()).filter(|i| w2.present[*i]).collect();
            let sp: Vec<String> = idx.iter().map(|i| w2.names[*i].clone()).collect();
            let refs: Vec<&str> = sp.iter().map(|s| s.as_str()).collect();
            let g1 = pa2.extract_files_parallel(&refs).map(|v| v.into_iter().map(|(n, d)| (n, Ok(d))).collect()).map_err(|e| e.to_string());
            check(ctx, &w2, &format!("generation {g} at the same path, extract_files_parallel (rep {rep})"), &idx, &sp, g1, "u", false, 1);
            let g3 = pa2.process_files_parallel(&refs, |n, d| Ok((n.to_string(), d))).map(|v| v.into_iter().map(|(n, d)| (n, Ok(d))).collect()).map_err(|e| e.to_string());
            check(ctx, &w2, &format!("generation {g} at the same path, process_files_parallel (rep {rep})"), &idx, &sp, g3, "u", false, 1);
            let cfg = ParallelConfig::new().threads(4).batch_size(7).skip_errors(true);
            let all: Vec<usize> = (0..w2.names.len()).collect();
            let spa: Vec<String> = all.iter().map(|i| w2.names[*i].clone()).collect();
            let refa: Vec<&str> = spa.iter().map(|s| s.as_str()).collect();
            let g4 = extract_with_config(&w2.path, &refa, cfg).map(|v| v.into_iter().map(|(n, r)| (n, r.map_err(|e| e.to_string()))).collect()).map_err(|e| e.to_string());
            check(ctx, &w2, &format!("generation {g} at the same path, extract_with_config (rep {rep})"), &all, &spa, g4, "u", true, 7);
            ctx.out.stat(&format!("c09.generation_{g}"));
        }
        drop(pa2);
        let World { path: _, names: _, present: _, seq: _, _dir } = w2;
        dir = Some(_dir);
      }
    }
    stop.store(true, std::sync::atomic::Ordering::Relaxed);
    for b in burners { let _ = b.join(); }
}
