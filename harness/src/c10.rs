//! C10 — corruption of protected data is detected; intact data always verifies.
//! Small archives carrying each kind of integrity metadata, altered at every offset (thorough) or a stride of offsets
//! (quick) of the protected regions with single-byte, zero-fill and multi-byte patterns; signed byte strings x bit flips.
use crate::common::*;
use crate::ffi::storm::*;
use std::collections::BTreeMap;
use std::ffi::{CString, c_void};
use std::io::Cursor;
use std::path::Path;
use wow_mpq::crypto::{DIGEST_UNIT_SIZE, SignatureInfo, WEAK_SIGNATURE_FILE_SIZE, calculate_mpq_hash_md5, generate_weak_signature, parse_weak_signature, verify_weak_signature_stormlib};
use wow_mpq::{Archive, ArchiveBuilder, AttributesOption, FormatVersion, ListfileOption, SignatureStatus};

#[derive(Clone, Copy, PartialEq, Debug)]
enum Kind { SectorCrc, Attributes, V4Digests, Signed }

struct World { bytes: Vec<u8>, files: BTreeMap<String, Vec<u8>>, kind: Kind, regions: Vec<(usize, usize, String)>, desc: String, sig_pos: usize }

fn text(n: usize, salt: u8) -> Vec<u8> { (0..n).map(|i| b"the quick brown fox jumps over the lazy dog "[(i + i / 37 + salt as usize) % 44]).collect() }

fn build(kind: Kind, ver: FormatVersion, rng: &mut Rng, dir: &Path) -> Option<World> {
    let path = dir.join("w.mpq");
    let mut files: Vec<(String, Vec<u8>, u8, u8)> = vec![
        ("raw.bin".into(), rng.bytes(180), 0, 0),
        ("small.txt".into(), text(400, 1), 0x02, 0),
        ("multi.txt".into(), text(1900, 2), 0x02, 0),
        ("enc.txt".into(), text(700, 3), 0x02, 1),
        ("encmulti.txt".into(), text(1500, 4), 0x10, 2),
        ("rawmulti.bin".into(), rng.bytes(1300), 0, 0),
        // a compressible, an incompressible (stored as it is) and another compressible sector in one file: every sector
        // carries a checksum whatever form it is stored in
        ("mixed.bin".into(), { let mut d = vec![b'A'; 512]; d.extend(rng.bytes(512)); d.extend(vec![b'B'; 300]); d }, 0x02, 0),
        // degenerate contents: their checksums and digests are those of the empty / one-byte string, not "absent"
        ("empty.flag".into(), vec![], 0, 0),
        ("one.bin".into(), vec![7], 0x02, 0),
    ];
    if kind == Kind::Signed { files.truncate(3); }
    let mut b = ArchiveBuilder::new().version(ver).block_size(0)
        .generate_crcs(kind == Kind::SectorCrc)
        .attributes_option(if kind == Kind::Attributes { AttributesOption::GenerateFull } else { AttributesOption::None })
        .listfile_option(if kind == Kind::Signed { ListfileOption::None } else { ListfileOption::Generate });
    for (n, d, m, e) in &files {
        b = match e { 0 => b.add_file_data_with_options(d.clone(), n, *m, false, 0), 1 => b.add_file_data_with_encryption(d.clone(), n, *m, false, 0), _ => b.add_file_data_with_encryption(d.clone(), n, *m, true, 0) };
    }
    if kind == Kind::Signed { b = b.add_file_data_with_options(vec![0u8; WEAK_SIGNATURE_FILE_SIZE], "(signature)", 0, false, 0).add_file_data_with_options(rng.bytes(150), "after.bin", 0, false, 0); }
    b.build(&path).ok()?;
    let mut bytes = std::fs::read(&path).ok()?;
    let a = Archive::open(&path).ok()?;
    let mut regions = vec![]; let mut sig_pos = 0;
    let mut fmap = BTreeMap::new();
    for (n, d, _, _) in &files { fmap.insert(n.clone(), d.clone()); }
    if kind == Kind::Signed { fmap.insert("after.bin".into(), a.find_file("after.bin").ok()??.file_size.to_le_bytes().to_vec()); fmap.remove("after.bin"); }
    match kind {
        Kind::SectorCrc => for (n, _, _, _) in &files { let fi = a.find_file(n).ok()??; if fi.has_sector_crc() { let extra = if fi.is_single_unit() { 4 } else { 0 }; regions.push((fi.file_pos as usize, fi.file_pos as usize + fi.compressed_size as usize + extra, n.clone())); } },
        Kind::Attributes => { for n in files.iter().map(|f| f.0.clone()).chain(["(attributes)".to_string()]) { let fi = a.find_file(&n).ok()??; regions.push((fi.file_pos as usize, fi.file_pos as usize + fi.compressed_size as usize, n)); } },
        Kind::V4Digests => { let h = a.header(); regions.push((0, 208, "header".into()));
            regions.push((h.get_hash_table_pos() as usize, h.get_hash_table_pos() as usize + h.v4_data.as_ref()?.hash_table_size_64 as usize, "hash table".into()));
            regions.push((h.get_block_table_pos() as usize, h.get_block_table_pos() as usize + h.v4_data.as_ref()?.block_table_size_64 as usize, "block table".into()));
            if let (Some(p), Some(v)) = (h.het_table_pos, h.v4_data.as_ref()) { if p != 0 { regions.push((p as usize, p as usize + v.het_table_size_64 as usize, "HET table".into())); } }
            if let (Some(p), Some(v)) = (h.bet_table_pos, h.v4_data.as_ref()) { if p != 0 { regions.push((p as usize, p as usize + v.bet_table_size_64 as usize, "BET table".into())); } } },
        Kind::Signed => { let s = a.find_file("(signature)").ok()??; sig_pos = s.file_pos as usize;
            let asz = a.header().archive_size as usize;
            let info = SignatureInfo::new_weak(0, asz as u64, sig_pos as u64, WEAK_SIGNATURE_FILE_SIZE as u64, vec![]);
            let sf = generate_weak_signature(Cursor::new(&bytes[..]), &info).ok()?;
            bytes[sig_pos..sig_pos + WEAK_SIGNATURE_FILE_SIZE].copy_from_slice(&sf);
            regions.push((0, asz.min(bytes.len()), "signed bytes".into())); },
    }
    if std::env::var("WVH_TRACE").is_ok() { eprintln!("{:?} {:?} regions {:?}", kind, ver, regions); }
    let desc = format!("{:?} {:?}", kind, ver);
    Some(World { bytes, files: fmap, kind, regions, desc, sig_pos })
}

fn ffi_verify(path: &Path, name: &str) -> Option<bool> {
    let cp = CString::new(path.to_str()?).ok()?;
    let mut h: *mut c_void = std::ptr::null_mut();
    if !unsafe { SFileOpenArchive(cp.as_ptr(), 0, 0, &mut h) } { return None; }
    let cn = CString::new(name).ok()?;
    let r = unsafe { SFileVerifyFile(h, cn.as_ptr(), 0) };
    SFileCloseArchive(h);
    Some(r)
}

/// what one altered (or intact) archive shows: Err(reason) = some operation reported failure
fn observe(w: &World, path: &Path, focus: Option<&str>) -> Result<Vec<String>, String> {
    let mut a = Archive::open(path).map_err(|e| format!("open: {e}"))?;
    let mut wrong = vec![];
    for (n, d) in &w.files {
        match a.read_file(n) { Ok(g) => if g != *d { let first = g.iter().zip(d.iter()).position(|(x, y)| x != y); wrong.push(format!("{n} (got {} bytes, want {}, first difference at {:?})", g.len(), d.len(), first)); }, Err(e) => return Err(format!("read {n}: {e}")) }
    }
    match w.kind {
        Kind::SectorCrc => {}
        Kind::Attributes => { for n in w.files.keys().filter(|n| focus.map(|f| f == "(attributes)" || f == n.as_str()).unwrap_or(true)) { match ffi_verify(path, n) { Some(true) => {}, Some(false) => return Err(format!("SFileVerifyFile {n}")), None => return Err("ffi open".into()) } } }
        Kind::V4Digests => { let info = a.get_info().map_err(|e| format!("get_info: {e}"))?;
            match info.md5_status { Some(s) => if !(s.hash_table_valid && s.block_table_valid && s.hi_block_table_valid && s.het_table_valid && s.bet_table_valid && s.header_valid) { return Err(format!("md5_status {s:?}")); }, None => return Err("md5_status absent".into()) } }
        Kind::Signed => { match a.verify_signature() { Ok(SignatureStatus::WeakValid) => {}, Ok(s) => return Err(format!("signature {s:?}")), Err(e) => return Err(format!("verify_signature: {e}")) } }
    }
    Ok(wrong)
}

pub fn run(ctx: &mut Ctx) {
    let dir = if Path::new("/dev/shm").is_dir() { tempfile::tempdir_in("/dev/shm").expect("tmp") } else { tempfile::tempdir().expect("tmp") };
    let worlds: Vec<(Kind, FormatVersion)> = vec![(Kind::SectorCrc, FormatVersion::V1), (Kind::SectorCrc, FormatVersion::V2), (Kind::Attributes, FormatVersion::V1), (Kind::Attributes, FormatVersion::V3),
        (Kind::V4Digests, FormatVersion::V4), (Kind::Signed, FormatVersion::V1)];
    let stride = if ctx.thorough { 1 } else { 7 };
    for (wi, (kind, ver)) in worlds.into_iter().enumerate() {
        if let Ok(only) = std::env::var("WVH_C10_WORLD") { if only != wi.to_string() { continue; } }
        let t0 = std::time::Instant::now();
        let mut rng = ctx.rng.clone();
        let w = match build(kind, ver, &mut rng, dir.path()) { Some(w) => w, None => { ctx.out.oracle(false, "cannot-build-protected-archive", &format!("{kind:?} {ver:?}")); continue; } };
        ctx.rng = rng;
        let p = dir.path().join("alt.mpq");
        // intact archive verifies
        std::fs::write(&p, &w.bytes).ok();
        match std::panic::catch_unwind(|| observe(&w, &p, None)) {
            Ok(Ok(wrong)) if wrong.is_empty() => { ctx.out.oracle(true, "", ""); ctx.out.stat(&format!("c10.intact_verifies.{}", w.desc)); }
            Ok(Ok(wrong)) => { ctx.out.oracle(false, "intact-archive-reads-wrong-content", &format!("{}: {:?}", w.desc, wrong)); continue; }
            Ok(Err(e)) => { ctx.out.oracle(false, "intact-archive-fails-verification", &format!("{}: {e}", w.desc)); continue; }
            Err(_) => { ctx.out.oracle(false, "verification-panics", &format!("{} intact", w.desc)); continue; }
        }
        // the same intact archive behind a prefix (user data / installer stub: header found at a 512-byte boundary, every
        // stored position relative to it) still verifies
        for pre in [512usize, 1536] {
            let mut pb: Vec<u8> = (0..pre).map(|i| (i * 31 % 251) as u8).collect();
            pb.extend_from_slice(&w.bytes);
            std::fs::write(&p, &pb).ok();
            match std::panic::catch_unwind(|| observe(&w, &p, None)) {
                Ok(Ok(wrong)) if wrong.is_empty() => { ctx.out.oracle(true, "", ""); ctx.out.stat("c10.intact_verifies.behind_prefix"); }
                Ok(Ok(wrong)) => ctx.out.oracle(false, "intact-archive-reads-wrong-content", &format!("{} behind a {pre}-byte prefix: {:?}", w.desc, wrong)),
                Ok(Err(e)) => ctx.out.oracle(false, "intact-archive-fails-verification", &format!("{} behind a {pre}-byte prefix: {e}", w.desc)),
                Err(_) => ctx.out.oracle(false, "verification-panics", &format!("{} intact behind a {pre}-byte prefix", w.desc)),
            }
        }
        for (lo, hi, what) in &w.regions {
            let mut off = *lo + (ctx.rng.below(stride as u64) as usize);
            while off < *hi {
                // near the end of each region every offset is taken: checksum slots and table tails live there
                let step = if *hi - off <= 12 || off - *lo < 8 { 1 } else { stride };
                for pat in 0..4u8 {
                    let mut b = w.bytes.clone();
                    let len = match pat { 0 => 1, 1 => 1, 2 => 5.min(hi - off), _ => (ctx.rng.range(2, 8) as usize).min(hi - off) };
                    for k in 0..len { b[off + k] = match pat { 0 => b[off + k] ^ (ctx.rng.range(1, 255) as u8), 1 | 2 => 0, _ => ctx.rng.next() as u8 }; }
                    if b == w.bytes { continue; }
                    // the 8-byte header of the signature file is neither signed nor signature
                    if w.kind == Kind::Signed && (off..off + len).all(|x| x >= w.sig_pos && x < w.sig_pos + 8) { continue; }
                    std::fs::write(&p, &b).ok();
                    let case = format!("{}: {} bytes at offset {off} ({what}, pattern {}) ", w.desc, len, ["xor", "zero", "zero-run", "random-run"][pat as usize]);
                    ctx.out.stat(&format!("c10.alter.{:?}.{}", w.kind, ["xor", "zero", "zero-run", "random-run"][pat as usize]));
                    if std::env::var("WVH_TRACE").is_ok() { eprintln!("{case}"); }
                    match std::panic::catch_unwind(|| observe(&w, &p, Some(what.as_str()))) {
                        // a panic is not a silent acceptance; that the library must not panic at all is C05's subject
                        Err(_) => { ctx.out.oracle(true, "", ""); ctx.out.stat("c10.panic_instead_of_error"); }
                        Ok(Err(_)) => { ctx.out.oracle(true, "", ""); ctx.out.stat("c10.detected"); ctx.out.nontrivial(case.as_bytes()); }
                        Ok(Ok(wrong)) if wrong.is_empty() && w.kind != Kind::Signed => { ctx.out.oracle(true, "", ""); ctx.out.stat("c10.harmless"); }
                        Ok(Ok(wrong)) => {
                            let tag = match w.kind { Kind::SectorCrc => "altered-sector-data-read-without-error", Kind::Attributes => "altered-file-passes-attribute-verification",
                                Kind::V4Digests => "altered-v4-table-passes-digests", Kind::Signed => "altered-signed-bytes-still-verify" };
                            ctx.out.oracle(false, tag, &format!("{case}: wrong content in {:?}", wrong));
                        }
                    }
                }
                off += step;
            }
        }
        ctx.out.stat_n(&format!("c10.ms.{}", w.desc), t0.elapsed().as_millis() as u64);
    }
    // an archive with full attributes that was then modified in place (one file added through MutableArchive): the files
    // that were not touched still verify, and altering their stored bytes is still detected
    for (ver, replace) in [(FormatVersion::V1, false), (FormatVersion::V3, false), (FormatVersion::V1, true), (FormatVersion::V2, true), (FormatVersion::V4, true)] {
        let mut rng = ctx.rng.clone();
        let Some(w) = build(Kind::Attributes, ver, &mut rng, dir.path()) else { continue };
        ctx.rng = rng;
        let p = dir.path().join("mod.mpq");
        std::fs::write(&p, &w.bytes).ok();
        let added: Vec<u8> = text(900, 9);
        // either a new name, or the new content of a name the archive already holds (the replaced file must verify as well)
        let target: String = if replace { w.files.keys().find(|k| !k.starts_with('(')).cloned().unwrap_or_else(|| "added.txt".into()) } else { "added.txt".into() };
        let okm = (|| -> Result<(), String> { let mut m = wow_mpq::MutableArchive::open(&p).map_err(|e| e.to_string())?; m.add_file_data(&added, &target, wow_mpq::AddFileOptions::new().replace_existing(replace)).map_err(|e| e.to_string())?; m.flush().map_err(|e| e.to_string())?; Ok(()) })();
        if let Err(e) = okm { ctx.out.known("modification-of-attributes-archive-fails", &format!("{ver:?}: {e}")); continue; }
        let mut w2 = World { bytes: std::fs::read(&p).unwrap_or_default(), files: w.files.clone(), kind: Kind::Attributes, regions: w.regions.clone(), desc: format!("Attributes {ver:?} after in-place {}", if replace { "replace" } else { "add" }), sig_pos: 0 };
        w2.files.insert(target.clone(), added.clone());

        match std::panic::catch_unwind(|| observe(&w2, &p, None)) {
            Ok(Ok(wrong)) if wrong.is_empty() => { ctx.out.oracle(true, "", ""); ctx.out.stat("c10.intact_verifies.after_modification"); }
            Ok(Ok(wrong)) => { ctx.out.oracle(false, "intact-archive-reads-wrong-content", &format!("{}: {:?}", w2.desc, wrong)); continue; }
            Ok(Err(e)) => { ctx.out.oracle(false, "intact-archive-fails-verification", &format!("{}: {e}", w2.desc)); continue; }
            Err(_) => { ctx.out.oracle(false, "verification-panics", &format!("{} intact", w2.desc)); continue; }
        }
        // alter stored bytes of untouched files (their positions did not move: modification appends)
        for (lo, hi, what) in w.regions.iter().filter(|r| r.2 != "(attributes)" && r.1 > r.0 && !(replace && r.2 == target)) {
            for off in [*lo, (*lo + *hi) / 2, *hi - 1] {
                let mut b = w2.bytes.clone(); if off >= b.len() { continue; } b[off] ^= 0x21;
                std::fs::write(&p, &b).ok();
                let case = format!("{}: one byte at offset {off} ({what})", w2.desc);
                match std::panic::catch_unwind(|| observe(&w2, &p, Some(what.as_str()))) {
                    Err(_) | Ok(Err(_)) => { ctx.out.oracle(true, "", ""); ctx.out.stat("c10.detected.after_modification"); }
                    Ok(Ok(wrong)) if wrong.is_empty() => { ctx.out.oracle(true, "", ""); ctx.out.stat("c10.harmless"); }
                    Ok(Ok(wrong)) => ctx.out.oracle(false, "altered-file-passes-attribute-verification", &format!("{case}: wrong content in {:?}", wrong)),
                }
            }
        }
    }
    // many different signed contents: every signature the library produces verifies (signature values with leading zero
    // bytes, about one content in 150, included)
    {
        let n = if ctx.thorough { 3000 } else { 700 };
        let mut bad = vec![];
        for k in 0..n {
            let total = 400usize;
            let sig_pos = 200usize;
            let mut bytes: Vec<u8> = (0..total).map(|i| ((i * 7 + k * 13) % 251) as u8).collect();
            bytes[0] = (k >> 8) as u8; bytes[1] = k as u8;
            // a signature file needs its own 72 bytes: extend the string so that it holds one
            bytes.resize(sig_pos + WEAK_SIGNATURE_FILE_SIZE + 100, 0x5A);
            let total = bytes.len();
            let info = SignatureInfo::new_weak(0, total as u64, sig_pos as u64, WEAK_SIGNATURE_FILE_SIZE as u64, vec![]);
            let Ok(sf) = generate_weak_signature(Cursor::new(&bytes[..]), &info) else { bad.push(format!("content {k}: cannot sign")); continue; };
            bytes[sig_pos..sig_pos + WEAK_SIGNATURE_FILE_SIZE].copy_from_slice(&sf);
            let ok = match parse_weak_signature(&bytes[sig_pos..sig_pos + WEAK_SIGNATURE_FILE_SIZE]) { Ok(sg) => { let i = SignatureInfo::new_weak(0, total as u64, sig_pos as u64, WEAK_SIGNATURE_FILE_SIZE as u64, sg.clone()); verify_weak_signature_stormlib(Cursor::new(&bytes[..]), &sg, &i).unwrap_or(false) } Err(_) => false };
            if !ok { bad.push(format!("content {k}")); }
        }
        ctx.out.oracle(bad.is_empty(), "library-signature-does-not-verify", &format!("{} of {n} freshly signed contents do not verify: {:?}", bad.len(), &bad[..bad.len().min(5)]));
        ctx.out.stat("c10.many_signatures");
    }
    // signed byte strings x bit flips, signature block at positions inside / at / across digest-unit boundaries
    let n_str = if ctx.thorough { 14 } else { 5 };
    for k in 0..n_str {
        let total = DIGEST_UNIT_SIZE * 2 + 1000 + ctx.rng.below(5000) as usize;
        let sig_pos = match k % 5 { 0 => 1000 + ctx.rng.below(60000) as usize, 1 => DIGEST_UNIT_SIZE - WEAK_SIGNATURE_FILE_SIZE, 2 => DIGEST_UNIT_SIZE, 3 => DIGEST_UNIT_SIZE - 1 - ctx.rng.below(70) as usize, _ => 2 * DIGEST_UNIT_SIZE - 1 - ctx.rng.below(70) as usize };
        let mut bytes = ctx.rng.bytes(total);
        let info = SignatureInfo::new_weak(0, total as u64, sig_pos as u64, WEAK_SIGNATURE_FILE_SIZE as u64, vec![]);
        let sf = match generate_weak_signature(Cursor::new(&bytes[..]), &info) { Ok(s) => s, Err(e) => { ctx.out.oracle(false, "cannot-sign", &format!("{e}")); continue; } };
        bytes[sig_pos..sig_pos + WEAK_SIGNATURE_FILE_SIZE].copy_from_slice(&sf);
        let verifies = |b: &[u8]| -> bool { match parse_weak_signature(&b[sig_pos..sig_pos + WEAK_SIGNATURE_FILE_SIZE]) { Ok(s) => { let i = SignatureInfo::new_weak(0, total as u64, sig_pos as u64, WEAK_SIGNATURE_FILE_SIZE as u64, s.clone()); verify_weak_signature_stormlib(Cursor::new(b), &s, &i).unwrap_or(false) } Err(_) => false } };
        ctx.out.oracle(verifies(&bytes), "library-signature-does-not-verify", &format!("string of {total} bytes, signature at {sig_pos}"));
        // digest input: model = bytes with the signature file zeroed
        if let Ok(h) = calculate_mpq_hash_md5(Cursor::new(&bytes[..]), &info) {
            let mut masked = bytes.clone(); for x in &mut masked[sig_pos..sig_pos + WEAK_SIGNATURE_FILE_SIZE] { *x = 0; }
            use md5::{Digest, Md5};
            let want: [u8; 16] = Md5::digest(&masked).into();
            ctx.out.oracle(h[..] == want[..], "signature-digest-does-not-cover-all-bytes", &format!("string of {total} bytes, signature at {sig_pos}: digest differs from MD5 of the bytes with the signature file zeroed"));
        }
        let mut offs: Vec<usize> = vec![0, total - 1, DIGEST_UNIT_SIZE - 1, DIGEST_UNIT_SIZE, 2 * DIGEST_UNIT_SIZE - 1, 2 * DIGEST_UNIT_SIZE];
        for d in 0..200usize { if sig_pos >= d + 1 { offs.push(sig_pos - d - 1); } if sig_pos + WEAK_SIGNATURE_FILE_SIZE + d < total { offs.push(sig_pos + WEAK_SIGNATURE_FILE_SIZE + d); } }
        for d in 8..WEAK_SIGNATURE_FILE_SIZE { offs.push(sig_pos + d); }
        for _ in 0..(if ctx.thorough { 600 } else { 150 }) { offs.push(ctx.rng.below(total as u64) as usize); }
        for o in offs {
            if o >= sig_pos && o < sig_pos + 8 { continue; }
            let mut b = bytes.clone(); b[o] ^= 1 << ctx.rng.below(8);
            ctx.out.stat("c10.signed_string_flip");
            ctx.out.oracle(!verifies(&b), "altered-signed-bytes-still-verify", &format!("string of {total} bytes, signature at {sig_pos}: bit flip at {o} ({})", if o >= sig_pos && o < sig_pos + WEAK_SIGNATURE_FILE_SIZE { "signature" } else { "signed byte" }));
        }
    }
    // checksum functions against the Lean definitions
    for k in 0..(if ctx.thorough { 400 } else { 80 }) {
        let n = match k % 8 { 0 => 0, 1 => 1, 2 => 5552, 3 => 5553, _ => ctx.rng.below(3000) as usize };
        let d = if k % 3 == 0 { vec![0xFFu8; n] } else { ctx.rng.bytes(n) };
        ctx.out.case(&format!("c10adler {}", crate::c18_wdt::canon_rle(&d)), &adler2::adler32_slice(&d).to_string());
        ctx.out.case(&format!("c10crc {}", crate::c18_wdt::canon_rle(&d)), &crc32fast::hash(&d).to_string());
    }
}
