//! `wvh fsop …` — single file-system operations run as a child process under strace (C12).
use crate::common::Rng;
use wow_mpq::{Archive, ArchiveBuilder, FormatVersion, ListfileOption, MutableArchive};

fn version(v: &str) -> FormatVersion { match v { "1" => FormatVersion::V1, "2" => FormatVersion::V2, "3" => FormatVersion::V3, _ => FormatVersion::V4 } }

pub fn files(seed: u64) -> Vec<(String, Vec<u8>)> {
    let mut rng = Rng::new(seed);
    (0..6).map(|i| {
        let len = match i { 0 => 0, 1 => 17, 2 => 700, 3 => 5000, 4 => 12000, _ => rng.range(1, 3000) as usize };
        // compressible payloads (multi-sector raw files are a separate, listed defect)
        (format!("dir\\file{i}.dat"), (0..len).map(|j| ((j / 13 + i) % 7) as u8 + b'a').collect())
    }).collect()
}

pub fn main(args: &[String]) -> i32 {
    match args.first().map(|s| s.as_str()) {
        Some("build") => {
            let (v, dest, seed) = (&args[1], &args[2], args[3].parse().unwrap_or(1));
            let mut b = ArchiveBuilder::new().version(version(v)).listfile_option(ListfileOption::Generate);
            for (n, d) in files(seed) { b = b.add_file_data(d, &n); }
            match b.build(dest) { Ok(()) => { println!("OK"); 0 } Err(e) => { println!("ERR {e}"); 1 } }
        }
        Some("compact") => {
            let dest = &args[1];
            let r = (|| -> wow_mpq::Result<()> { let mut m = MutableArchive::open(dest)?; m.compact()?; Ok(()) })();
            match r { Ok(()) => { println!("OK"); 0 } Err(e) => { println!("ERR {e}"); 1 } }
        }
        Some("compactdirty") => {
            // remove + compact without an intervening flush: the archive is dirty when compaction starts
            let dest = &args[1];
            let r = (|| -> wow_mpq::Result<()> { let mut m = MutableArchive::open(dest)?; m.remove_file("dir\\file2.dat")?; m.compact()?; Ok(()) })();
            match r { Ok(()) => { println!("OK"); 0 } Err(e) => { println!("ERR {e}"); 1 } }
        }
        Some("mk11") => {
            // build an archive whose entries carry the given (hex-encoded, UTF-8) names; content = "content:<hex>"
            let (dest, namesfile) = (&args[1], &args[2]);
            let mut b = ArchiveBuilder::new().listfile_option(ListfileOption::Generate);
            for l in std::fs::read_to_string(namesfile).unwrap_or_default().lines() {
                let name = String::from_utf8(crate::common::unhex(l)).unwrap_or_default();
                if name.is_empty() { continue; }
                b = b.add_file_data(format!("content:{l}").into_bytes(), &name);
            }
            match b.build(dest) { Ok(()) => 0, Err(e) => { println!("ERR {e}"); 1 } }
        }
        Some("readable") => {
            // does the library read this one member? (C20: which inputs a sub-command "cannot do")
            match Archive::open(&args[1]).and_then(|mut a| a.read_file(&args[2])) { Ok(_) => 0, Err(_) => 1 }
        }
        Some("list") => {
            // the library's view of an archive: sorted names and sizes
            let r = (|| -> wow_mpq::Result<Vec<String>> { let mut a = Archive::open(&args[1])?; let mut v: Vec<String> = a.list()?.into_iter().map(|e| format!("{}\t{}", e.name, e.size)).collect(); v.sort(); Ok(v) })();
            match r { Ok(v) => { for l in v { println!("{l}"); } 0 } Err(e) => { println!("ERR {e}"); 1 } }
        }
        Some("mkfile") => {
            // a small valid file of the given family (C20: valid / truncated / corrupted inputs for every sub-command)
            let (kind, path) = (args[1].as_str(), &args[2]);
            let bytes: Vec<u8> = match kind {
                "dbc" => { let mut v = b"WDBC".to_vec(); for x in [2u32, 2, 8, 6] { v.extend_from_slice(&x.to_le_bytes()); }
                    for x in [1u32, 1, 2, 3] { v.extend_from_slice(&x.to_le_bytes()); } v.extend_from_slice(b"\0ab\0c\0"); v }
                "wdt" => { let mut w = wow_wdt::WdtFile::new(wow_wdt::version::WowVersion::WotLK); w.mwmo = Some(wow_wdt::chunks::MwmoChunk::new());
                    if let Some(e) = w.main.get_mut(3, 4) { e.flags = 1; }
                    let mut b = Vec::new(); let _ = wow_wdt::WdtWriter::new(&mut b).write(&w); b }
                "wdl" => { let mut f = wow_wdl::types::WdlFile::with_version(wow_wdl::version::WdlVersion::Wotlk);
                    f.heightmap_tiles.insert((1, 2), wow_wdl::types::HeightMapTile::new());
                    let mut c = std::io::Cursor::new(Vec::new()); let _ = wow_wdl::parser::WdlParser::with_version(wow_wdl::version::WdlVersion::Wotlk).write(&mut c, &f); c.into_inner() }
                "adt" => wow_adt::builder::AdtBuilder::new().with_version(wow_adt::AdtVersion::WotLK).add_texture("tileset/a.blp").build().and_then(|x| x.to_bytes()).unwrap_or_default(),
                "wmo" => { let mut rng = crate::common::Rng::new(3); let mut out = vec![]; for _ in 0..20 { let r = crate::c15::gen_root(&mut rng, wow_wmo::WmoVersion::Wotlk, false); if r.groups.is_empty() || r.materials.is_empty() { continue; } let mut c = std::io::Cursor::new(Vec::new()); if wow_wmo::WmoWriter::new().write_root(&mut c, &r, wow_wmo::WmoVersion::Wotlk).is_ok() { out = c.into_inner(); break; } } out }
                "m2" => { let mut rng = crate::common::Rng::new(4); let (m, _) = crate::c13::gen_model(&mut rng, wow_m2::M2Version::WotLK); let mut c = std::io::Cursor::new(Vec::new()); let _ = m.write(&mut c); c.into_inner() }
                "blp" => { let mut rng = crate::common::Rng::new(5); crate::c16::sample_blps(&mut rng).into_iter().next().map(|x| x.1).unwrap_or_default() }
                _ => return 2,
            };
            if bytes.is_empty() { return 1; }
            match std::fs::write(path, bytes) { Ok(()) => 0, Err(_) => 1 }
        }
        Some("parse") => {
            // does the library accept this file?  exit 0 = parses
            let (kind, path) = (args[1].as_str(), &args[2]);
            let data = match std::fs::read(path) { Ok(d) => d, Err(_) => return 1 };
            let ok = std::panic::catch_unwind(|| match kind {
                "dbc" => wow_cdbc::DbcParser::parse_bytes(&data).is_ok(),
                "wdt" => wow_wdt::WdtReader::new(std::io::Cursor::new(&data), wow_wdt::version::WowVersion::WotLK).read().is_ok(),
                "wdl" => wow_wdl::parser::WdlParser::new().parse(&mut std::io::Cursor::new(&data)).is_ok(),
                "mpq" => Archive::open(path).is_ok(),
                "adt" => wow_adt::parse_adt(&mut std::io::Cursor::new(&data)).is_ok(),
                "wmo" => wow_wmo::parse_wmo(&mut std::io::Cursor::new(&data)).is_ok(),
                "m2" => wow_m2::M2Model::parse(&mut std::io::Cursor::new(&data)).is_ok() || wow_m2::parse_m2(&mut std::io::Cursor::new(&data)).is_ok(),
                "blp" => wow_blp::parser::parse_blp(&data).is_ok(),
                _ => false,
            }).unwrap_or(false);
            if ok { println!("parses"); 0 } else { println!("rejects"); 1 }
        }
        Some("readall") => {
            // open `archive` (rle-hex text in a file) with the Rust reader and compare every `namehex=datarle` of `expfile`
            let arch_text = std::fs::read_to_string(&args[1]).unwrap_or_default();
            let mut bytes = crate::c18_wdt::unrle(arch_text.trim());
            // optional: the archive behind a foreign prefix of that many bytes (a multiple of 512: where the header search looks)
            if let Some(pre) = args.get(3).and_then(|s| s.parse::<usize>().ok()) { let mut v: Vec<u8> = (0..pre).map(|i| (i * 31 % 251) as u8 | 0x80).collect(); v.extend_from_slice(&bytes); bytes = v; }
            let tmp = tempfile::NamedTempFile::new().expect("tmp");
            std::fs::write(tmp.path(), &bytes).ok();
            let mut a = match Archive::open(tmp.path()) { Ok(a) => a, Err(e) => { println!("FAIL open: {e}"); return 1; } };
            let mut bad = 0;
            for item in std::fs::read_to_string(&args[2]).unwrap_or_default().split_whitespace() {
                let (n, d) = item.split_once('=').unwrap_or(("", "-"));
                let name = String::from_utf8(crate::common::unhex(n)).unwrap_or_default();
                let want = crate::c18_wdt::unrle(d);
                for sp in [name.clone(), name.to_ascii_uppercase(), name.replace('\\', "/")] {
                    match a.read_file(&sp) { Ok(g) if g == want => {}, Ok(g) => { println!("FAIL {sp}: {} bytes differ (want {})", g.len(), want.len()); bad += 1; }
                        Err(e) => { let es = e.to_string(); if es.contains("Compression bomb") { println!("BOMB {sp}"); } else { println!("FAIL {sp}: {es}"); bad += 1; } } }
                }
            }
            if matches!(a.find_file("never\\added.txt"), Ok(None)) {} else { println!("FAIL never-added name resolves"); bad += 1; }
            if bad == 0 { println!("ok"); 0 } else { 1 }
        }
        Some("mk02") => {
            // archives restricted to the published subset (V1/V2, classic tables, none/zlib/bzip2, plain/encrypted[/fix-key]);
            // writes <dir>/a<i>.mpq and <dir>/a<i>.txt (one `namehex method enc datarle` line per file, first line = config)
            let (dir, seed, n) = (&args[1], args[2].parse::<u64>().unwrap_or(1), args[3].parse::<usize>().unwrap_or(10));
            let mut rng = Rng::new(seed);
            for i in 0..n {
                let (mut cfg, mut files) = crate::c01::gen_case(&mut rng, true);
                cfg.ver %= 2; cfg.table_comp = false; cfg.attrs = 0;
                for f in &mut files { if f.method != 0 && f.method != 0x02 && f.method != 0x10 { f.method = if rng.chance(1, 2) { 0x02 } else { 0x10 }; } }
                let p = std::path::Path::new(dir).join(format!("a{i}.mpq"));
                if crate::c01::build(&cfg, &files, &p).is_err() { continue; }
                let mut txt = format!("cfg ver={} shift={} crc={} listfile={}\n", cfg.ver, cfg.shift, cfg.crc, cfg.listfile);
                for f in &files { txt.push_str(&format!("{} {} {} {}\n", crate::common::hex(f.name.as_bytes()), f.method, f.enc, crate::c18_wdt::canon_rle(&f.data))); }
                std::fs::write(std::path::Path::new(dir).join(format!("a{i}.txt")), txt).ok();
            }
            0
        }
        Some("v4status") => {
            // build a small V4 archive at args[1] and print its digest status
            let b = ArchiveBuilder::new().version(FormatVersion::V4).listfile_option(ListfileOption::Generate).add_file_data(b"hello world hello world".to_vec(), "a.txt");
            if let Err(e) = b.build(&args[1]) { println!("ERR build {e}"); return 1; }
            match Archive::open(&args[1]).and_then(|mut a| a.get_info()) { Ok(i) => { println!("{:?}", i.md5_status); 0 } Err(e) => { println!("ERR {e}"); 1 } }
        }
        Some("header") => {
            match Archive::open(&args[1]) { Ok(a) => { let h = a.header();
                println!("hdr={} size={} ver={} shift={} hash={}/{} block={}/{}", h.header_size, h.archive_size, h.format_version as u16, h.block_size, h.get_hash_table_pos(), h.hash_table_size, h.get_block_table_pos(), h.block_table_size); 0 }
                Err(e) => { println!("ERR {e}"); 1 } }
        }
        Some("remove") => {
            // preparation step for compact (not traced): remove one file and flush, leaving reclaimable space
            let dest = &args[1];
            let r = (|| -> wow_mpq::Result<()> { let mut m = MutableArchive::open(dest)?; m.remove_file("dir\\file2.dat")?; m.flush()?; Ok(()) })();
            match r { Ok(()) => 0, Err(e) => { println!("ERR {e}"); 1 } }
        }
        Some("verify") => {
            let (dest, seed, without) = (&args[1], args[2].parse().unwrap_or(1), args.get(3).and_then(|s| s.parse::<i64>().ok()).unwrap_or(-1));
            let r = (|| -> Result<(), String> {
                let mut a = Archive::open(dest).map_err(|e| format!("does not open: {e}"))?;
                for (i, (n, d)) in files(seed).iter().enumerate() {
                    let got = a.read_file(n);
                    if i as i64 == without { if got.is_ok() { return Err(format!("{n} still present")); } continue; }
                    match got { Ok(g) if g == *d => {}, Ok(_) => return Err(format!("{n} differs")), Err(e) => return Err(format!("{n}: {e}")) }
                }
                Ok(())
            })();
            match r { Ok(()) => { println!("complete"); 0 } Err(e) => { println!("corrupt: {e}"); 1 } }
        }
        _ => { eprintln!("fsop build|compact|verify"); 2 }
    }
}

/// canonical dump of header positions, hash-table slots and block table of an archive file (raw decode, no Archive::open):
/// `hp.bp.hs.bc.asz;slot,slot,...;blk,blk,...` with slot = N | D | a.b.locale.blk and blk = pos.csize.fsize.flags
pub fn table_dump(path: &std::path::Path) -> String {
    use wow_mpq::crypto::{decrypt_block, hash_string, hash_type};
    let d = match std::fs::read(path) { Ok(d) => d, Err(_) => return "unreadable".into() };
    if d.len() < 32 || &d[0..4] != b"MPQ\x1a" { return "no-header-at-0".into(); }
    let u32at = |o: usize| -> u64 { if o + 4 <= d.len() { u32::from_le_bytes([d[o], d[o + 1], d[o + 2], d[o + 3]]) as u64 } else { 0 } };
    let (asz, hp, bp, hs, bc) = (u32at(8), u32at(16), u32at(20), u32at(24), u32at(28));
    let table = |pos: u64, n: u64, key: &str| -> Option<Vec<u32>> {
        let (a, b) = (pos as usize, pos as usize + n as usize * 16);
        if b > d.len() { return None; }
        let mut w: Vec<u32> = d[a..b].chunks_exact(4).map(|c| u32::from_le_bytes([c[0], c[1], c[2], c[3]])).collect();
        decrypt_block(&mut w, hash_string(key, hash_type::FILE_KEY));
        Some(w)
    };
    let (ht, bt) = match (table(hp, hs, "(hash table)"), table(bp, bc, "(block table)")) { (Some(h), Some(b)) => (h, b), _ => return "tables-out-of-file".into() };
    let slots: Vec<String> = ht.chunks_exact(4).map(|e| match e[3] { 0xFFFF_FFFF => "N".to_string(), 0xFFFF_FFFE => "D".to_string(), k => format!("{}.{}.{}.{}", e[0], e[1], e[2] & 0xFFFF, k) }).collect();
    let blocks: Vec<String> = bt.chunks_exact(4).map(|e| format!("{}.{}.{}.{}", e[0], e[1], e[2], e[3])).collect();
    format!("{hp}.{bp}.{hs}.{bc}.{asz};{};{}", slots.join(","), if blocks.is_empty() { "-".to_string() } else { blocks.join(",") })
}
