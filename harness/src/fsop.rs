//! `wvh fsop …` — single file-system operations run as a child process under strace (C12).
use crate::common::Rng;
use wow_mpq::{Archive, ArchiveBuilder, FormatVersion, ListfileOption, MutableArchive};

fn version(v: &str) -> FormatVersion { match v { "1" => FormatVersion::V1, "2" => FormatVersion::V2, "3" => FormatVersion::V3, _ => FormatVersion::V4 } }

pub fn files(seed: u64) -> Vec<(String, Vec<u8>)> {
    let mut rng = Rng::new(seed);
    (0..6).map(|i| {
        let len = match i { 0 => 0, 1 => 17, 2 => 700, 3 => 5000, 4 => 12000, _ => rng.range(1, 3000) as usize };
        // compressible payloads (multi-sector raw files are a separate, listed defect)
        (format!("dir\\file{i}.dat"), (0..len).map(|j| ((j / 13 + i) % 7) as u8 + b'a').collect())
    }).collect()
}

pub fn main(args: &[String]) -> i32 {
    match args.first().map(|s| s.as_str()) {
        Some("build") => {
            let (v, dest, seed) = (&args[1], &args[2], args[3].parse().unwrap_or(1));
            let mut b = ArchiveBuilder::new().version(version(v)).listfile_option(ListfileOption::Generate);
            for (n, d) in files(seed) { b = b.add_file_data(d, &n); }
            match b.build(dest) { Ok(()) => { println!("OK"); 0 } Err(e) => { println!("ERR {e}"); 1 } }
        }
        Some("compact") => {
            let dest = &args[1];
            let r = (|| -> wow_mpq::Result<()> { let mut m = MutableArchive::open(dest)?; m.compact()?; Ok(()) })();
            match r { Ok(()) => { println!("OK"); 0 } Err(e) => { println!("ERR {e}"); 1 } }
        }
        Some("compactdirty") => {
            // remove + compact without an intervening flush: the archive is dirty when compaction starts
            let dest = &args[1];
            let r = (|| -> wow_mpq::Result<()> { let mut m = MutableArchive::open(dest)?; m.remove_file("dir\\file2.dat")?; m.compact()?; Ok(()) })();
            match r { Ok(()) => { println!("OK"); 0 } Err(e) => { println!("ERR {e}"); 1 } }
        }
        Some("mk11") => {
            // build an archive whose entries carry the given (hex-encoded, UTF-8) names; content = "content:<hex>"
            let (dest, namesfile) = (&args[1], &args[2]);
            let mut b = ArchiveBuilder::new().listfile_option(ListfileOption::Generate);
            for l in std::fs::read_to_string(namesfile).unwrap_or_default().lines() {
                let name = String::from_utf8(crate::common::unhex(l)).unwrap_or_default();
                if name.is_empty() { continue; }
                b = b.add_file_data(format!("content:{l}").into_bytes(), &name);
            }
            match b.build(dest) { Ok(()) => 0, Err(e) => { println!("ERR {e}"); 1 } }
        }
        Some("remove") => {
            // preparation step for compact (not traced): remove one file and flush, leaving reclaimable space
            let dest = &args[1];
            let r = (|| -> wow_mpq::Result<()> { let mut m = MutableArchive::open(dest)?; m.remove_file("dir\\file2.dat")?; m.flush()?; Ok(()) })();
            match r { Ok(()) => 0, Err(e) => { println!("ERR {e}"); 1 } }
        }
        Some("verify") => {
            let (dest, seed, without) = (&args[1], args[2].parse().unwrap_or(1), args.get(3).and_then(|s| s.parse::<i64>().ok()).unwrap_or(-1));
            let r = (|| -> Result<(), String> {
                let mut a = Archive::open(dest).map_err(|e| format!("does not open: {e}"))?;
                for (i, (n, d)) in files(seed).iter().enumerate() {
                    let got = a.read_file(n);
                    if i as i64 == without { if got.is_ok() { return Err(format!("{n} still present")); } continue; }
                    match got { Ok(g) if g == *d => {}, Ok(_) => return Err(format!("{n} differs")), Err(e) => return Err(format!("{n}: {e}")) }
                }
                Ok(())
            })();
            match r { Ok(()) => { println!("complete"); 0 } Err(e) => { println!("corrupt: {e}"); 1 } }
        }
        _ => { eprintln!("fsop build|compact|verify"); 2 }
    }
}
