//! C05 — parsers are total: bad input gives an error, never a crash, hang or huge allocation.
//! `wvh run C05` is a supervisor: it spawns `wvh c05child …` workers that run the mutation cases in-process (panics
//! caught, allocations counted by the global allocator) and print one line per case; a worker that dies (abort, stack
//! overflow, allocation failure) or stops making progress is restarted behind the case that killed it.
use crate::common::*;
use std::io::{BufRead, BufReader, Cursor, Write};
use std::sync::atomic::{AtomicUsize, Ordering};

// ---------- allocation accounting (installed as the global allocator in main.rs) ----------
pub struct Counting;
pub static CUR: AtomicUsize = AtomicUsize::new(0);
pub static PEAK: AtomicUsize = AtomicUsize::new(0);
pub static BIGGEST: AtomicUsize = AtomicUsize::new(0);
/// single requests above this are refused (the runtime then aborts the worker, which the supervisor reports)
pub const REFUSE: usize = 3 << 30;
unsafe impl std::alloc::GlobalAlloc for Counting {
    unsafe fn alloc(&self, l: std::alloc::Layout) -> *mut u8 {
        if l.size() > REFUSE { BIGGEST.fetch_max(l.size(), Ordering::Relaxed); return std::ptr::null_mut(); }
        let p = std::alloc::System.alloc(l);
        if !p.is_null() { let c = CUR.fetch_add(l.size(), Ordering::Relaxed) + l.size(); PEAK.fetch_max(c, Ordering::Relaxed); BIGGEST.fetch_max(l.size(), Ordering::Relaxed); }
        p
    }
    unsafe fn dealloc(&self, p: *mut u8, l: std::alloc::Layout) { CUR.fetch_sub(l.size(), Ordering::Relaxed); std::alloc::System.dealloc(p, l) }
    unsafe fn alloc_zeroed(&self, l: std::alloc::Layout) -> *mut u8 {
        if l.size() > REFUSE { BIGGEST.fetch_max(l.size(), Ordering::Relaxed); return std::ptr::null_mut(); }
        let p = std::alloc::System.alloc_zeroed(l);
        if !p.is_null() { let c = CUR.fetch_add(l.size(), Ordering::Relaxed) + l.size(); PEAK.fetch_max(c, Ordering::Relaxed); BIGGEST.fetch_max(l.size(), Ordering::Relaxed); }
        p
    }
    unsafe fn realloc(&self, p: *mut u8, l: std::alloc::Layout, n: usize) -> *mut u8 {
        if n > REFUSE { BIGGEST.fetch_max(n, Ordering::Relaxed); return std::ptr::null_mut(); }
        let q = std::alloc::System.realloc(p, l, n);
        if !q.is_null() { if n >= l.size() { let c = CUR.fetch_add(n - l.size(), Ordering::Relaxed) + (n - l.size()); PEAK.fetch_max(c, Ordering::Relaxed); } else { CUR.fetch_sub(l.size() - n, Ordering::Relaxed); } BIGGEST.fetch_max(n, Ordering::Relaxed); }
        q
    }
}

// ---------- seed files ----------
pub struct Seed { pub fmt: &'static str, pub name: String, pub bytes: Vec<u8> }

fn chunk(id: &[u8; 4], data: &[u8]) -> Vec<u8> { let mut v: Vec<u8> = id.iter().rev().cloned().collect(); v.extend((data.len() as u32).to_le_bytes()); v.extend(data); v }

pub fn seeds() -> Vec<Seed> {
    let mut rng = Rng::new(5);
    let mut v = vec![];
    let dir = tempfile::tempdir().expect("tmp");
    // MPQ V1..V4 with attributes, listfile, a multi-sector compressed, an encrypted and a raw file; one behind a user-data header
    for (i, ver) in crate::c01::VERS.iter().enumerate() {
        let p = dir.path().join(format!("s{i}.mpq"));
        let b = wow_mpq::ArchiveBuilder::new().version(*ver).block_size(0).generate_crcs(i % 2 == 0).listfile_option(wow_mpq::ListfileOption::Generate)
            .attributes_option(if i >= 1 { wow_mpq::AttributesOption::GenerateFull } else { wow_mpq::AttributesOption::None })
            .add_file_data_with_options((0..1400).map(|k| b"terrain tile "[k % 13]).collect(), "multi.txt", 0x02, false, 0)
            .add_file_data_with_encryption(rng.bytes(300), "enc.bin", 0x02, true, 0)
            .add_file_data_with_options(rng.bytes(90), "raw.bin", 0, false, 0);
        if b.build(&p).is_ok() { if let Ok(d) = std::fs::read(&p) {
            if i == 0 { let mut u = vec![0u8; 512]; u[..4].copy_from_slice(b"MPQ\x1b"); u[4..8].copy_from_slice(&64u32.to_le_bytes()); u[8..12].copy_from_slice(&512u32.to_le_bytes()); u[12..16].copy_from_slice(&16u32.to_le_bytes()); u.extend(&d); v.push(Seed { fmt: "mpq", name: "v1-userdata".into(), bytes: u }); }
            v.push(Seed { fmt: "mpq", name: format!("v{}", i + 1), bytes: d }); } }
    }
    // patch files (COPY and BSD0)
    let base: Vec<u8> = (0..400).map(|k| (k * 7 % 251) as u8).collect(); let new: Vec<u8> = (0..420).map(|k| (k * 5 % 241) as u8).collect();
    v.push(Seed { fmt: "patch", name: "copy".into(), bytes: crate::c08::patch_bytes("COPY", &base, &new, &new, new.len() as u32) });
    let blk = crate::c08::bsd0_block(&mut rng, &base, &new);
    v.push(Seed { fmt: "patch", name: "bsd0".into(), bytes: crate::c08::patch_bytes("BSD0", &base, &new, &crate::c08::rle_encode(&blk), blk.len() as u32) });
    // M2 models and skins
    for (i, ver) in [wow_m2::M2Version::Vanilla, wow_m2::M2Version::WotLK, wow_m2::M2Version::MoP].iter().enumerate() {
        for _ in 0..6 { let (m, t) = crate::c13::gen_model(&mut rng, *ver); if t.len() >= 2 && !m.events.is_empty() { let mut c = Cursor::new(Vec::new()); if m.write(&mut c).is_ok() { v.push(Seed { fmt: "m2", name: format!("model{i}"), bytes: c.into_inner() }); break; } } }
    }
    for old in [true, false] { if let Some(b) = crate::c13::skin_bytes(&mut rng, old) { v.push(Seed { fmt: "skin", name: if old { "old".into() } else { "new".into() }, bytes: b }); } }
    // ADT (minimal per version + water), WMO root and group
    for ver in [wow_adt::AdtVersion::VanillaEarly, wow_adt::AdtVersion::WotLK, wow_adt::AdtVersion::MoP] {
        if let Ok(b) = wow_adt::builder::AdtBuilder::new().with_version(ver).add_texture("a.blp").add_model("m.m2").build().and_then(|x| x.to_bytes()) {
            // keep the first 3 terrain chunks only: the full tile is 256 near-identical chunks
            let mut cut = b.len(); let mut p = 0usize; let mut n = 0; while p + 8 <= b.len() { let sz = u32::from_le_bytes([b[p + 4], b[p + 5], b[p + 6], b[p + 7]]) as usize; if &b[p..p + 4] == b"KNCM" { n += 1; if n == 4 { cut = p; break; } } p += 8 + sz; }
            v.push(Seed { fmt: "adt", name: format!("{ver:?}"), bytes: b[..cut].to_vec() }); }
    }
    for (i, ver) in [wow_wmo::WmoVersion::Classic, wow_wmo::WmoVersion::Wotlk, wow_wmo::WmoVersion::Mop].iter().enumerate() {
        for _ in 0..8 { let r = crate::c15::gen_root(&mut rng, *ver, false); if r.groups.len() >= 2 && !r.materials.is_empty() && !r.portals.is_empty() { let mut c = Cursor::new(Vec::new()); if wow_wmo::WmoWriter::new().write_root(&mut c, &r, *ver).is_ok() { v.push(Seed { fmt: "wmo", name: format!("root{i}"), bytes: c.into_inner() }); break; } } }
        for _ in 0..8 { let g = crate::c15::gen_group(&mut rng); if g.vertices.len() >= 3 { let mut c = Cursor::new(Vec::new()); if wow_wmo::WmoWriter::new().write_group(&mut c, &g, *ver).is_ok() { v.push(Seed { fmt: "wmo", name: format!("group{i}"), bytes: c.into_inner() }); break; } } }
    }
    // ADT with water, flight bounds, texture flags and populated terrain chunks (all chunks kept except terrain chunks 4..256)
    for (wi, ver) in [wow_adt::AdtVersion::WotLK, wow_adt::AdtVersion::MoP].into_iter().enumerate() {
        let mut b = wow_adt::builder::AdtBuilder::new().with_version(ver).add_texture("a.blp").add_texture("b.blp").add_model("m.m2").add_wmo("w.wmo")
            .add_water_data(crate::c14::water(&mut rng))
            .add_flight_bounds(wow_adt::chunks::MfboChunk { max_plane: [7; 9], min_plane: [-7; 9] })
            .add_texture_flags(wow_adt::chunks::MtxfChunk { flags: vec![1, 2] });
        if let Ok(base) = wow_adt::builder::AdtBuilder::new().with_version(ver).add_texture("t.blp").build().and_then(|x| x.to_bytes()) {
            if let Ok(wow_adt::ParsedAdt::Root(root)) = wow_adt::parse_adt(&mut Cursor::new(&base)) {
                for (i, mut c) in root.mcnk_chunks.into_iter().take(2).enumerate() {
                    c.layers = Some(wow_adt::chunks::mcnk::MclyChunk { layers: (0..2).map(|j| wow_adt::chunks::mcnk::MclyLayer { texture_id: j as u32, flags: Default::default(), offset_in_mcal: 0, effect_id: 0 }).collect() });
                    c.alpha = Some(wow_adt::chunks::mcnk::McalChunk::new(rng.bytes(2048)));
                    c.shadow = Some(wow_adt::chunks::mcnk::McshChunk { shadow_map: rng.bytes(512) });
                    if i == 0 { c.header.n_doodad_refs = 2; c.refs = Some(wow_adt::chunks::mcnk::McrfChunk { references: vec![0, 0] }); }
                    b = b.add_mcnk_chunk(c);
                }
            }
        }
        if let Ok(full) = b.build().and_then(|x| x.to_bytes()) {
            let mut out = vec![]; let mut p = 0usize; let mut n = 0;
            while p + 8 <= full.len() { let sz = u32::from_le_bytes([full[p + 4], full[p + 5], full[p + 6], full[p + 7]]) as usize; let e = (p + 8 + sz).min(full.len());
                if &full[p..p + 4] == b"KNCM" { n += 1; if n <= 3 { out.extend(&full[p..e]); } } else { out.extend(&full[p..e]); } p = e; }
            v.push(Seed { fmt: "adt", name: format!("water{wi}"), bytes: out });
        }
    }
    // chunked M2 (MD21 wrapper around a model, followed by every auxiliary chunk the reader knows, small patterned payloads)
    for (i, ver) in [wow_m2::M2Version::Legion, wow_m2::M2Version::WotLK].iter().enumerate() {
        let (m, _) = crate::c13::gen_model(&mut rng, *ver); let mut c = Cursor::new(Vec::new());
        if m.write(&mut c).is_ok() { let inner = c.into_inner(); let mut d = b"MD21".to_vec(); d.extend((inner.len() as u32).to_le_bytes()); d.extend(&inner);
            for (k, id) in [b"SFID", b"AFID", b"TXID", b"PFID", b"SKID", b"BFID", b"LDV1", b"EXPT", b"EXP2", b"PABC", b"PADC", b"WFV1", b"WFV2", b"WFV3", b"EDGF", b"NERF", b"DETL", b"RPID", b"GPID", b"TXAC", b"PGD1", b"DBOC", b"AFRA", b"DPIV", b"PSBC", b"PEDC", b"PCOL", b"PFDC", b"ZZZZ"].iter().enumerate() {
                let len = [4usize, 8, 16, 24, 48, 64][(k + i) % 6]; d.extend(*id); d.extend((len as u32).to_le_bytes()); d.extend((0..len).map(|j| if j % 4 == 0 { (1 + (j / 4 + k) % 3) as u8 } else { 0 })); }
            v.push(Seed { fmt: "m2c", name: format!("chunked{i}"), bytes: d }); }
    }
    // animation files: modern (MAOF header, entry table, AFID sections with per-bone tracks) and headerless legacy data
    { let u = |d: &mut Vec<u8>, x: u32| d.extend(x.to_le_bytes());
      let mut d = b"MAOF".to_vec(); for x in [1u32, 2, 0, 20] { u(&mut d, x); }
      let sec = |id: u32, bones: &[u32]| { let mut s = b"AFID".to_vec(); for x in [id, 0, 100] { s.extend(x.to_le_bytes()); } for b in bones { s.extend(b.to_le_bytes()); }
          for (bi, b) in bones.iter().enumerate() { if *b == 0 { continue; } s.extend((bi as u32).to_le_bytes()); s.extend(7u32.to_le_bytes());
              s.extend(2u32.to_le_bytes()); for t in [0u32, 50] { s.extend(t.to_le_bytes()); } for f in [0.0f32, 1.0, 2.0, 3.0, 4.0, 5.0] { s.extend(f.to_le_bytes()); }
              s.extend(1u32.to_le_bytes()); s.extend(10u32.to_le_bytes()); for f in [0.0f32, 0.0, 0.0, 1.0] { s.extend(f.to_le_bytes()); }
              s.extend(1u32.to_le_bytes()); s.extend(20u32.to_le_bytes()); for f in [1.0f32, 1.0, 1.0] { s.extend(f.to_le_bytes()); } } s };
      let (s1, s2) = (sec(4, &[1, 0, 1]), sec(5, &[0, 1]));
      let o1 = 20 + 24; let o2 = o1 + s1.len();
      for (id, o, n) in [(4u32, o1, 3u32), (5, o2, 2)] { u(&mut d, id); u(&mut d, o as u32); u(&mut d, 16 + 4 * n); }
      d.extend(&s1); d.extend(&s2);
      v.push(Seed { fmt: "anim", name: "modern".into(), bytes: d });
      v.push(Seed { fmt: "anim", name: "legacy".into(), bytes: (0..96u32).flat_map(|k| (k * 33).to_le_bytes()).collect() }); }
    // later client database containers: WDB2 (basic and extended header with index arrays) and WDB5
    { let rec = |d: &mut Vec<u8>| { for r in 0..3u32 { for x in [r + 1, r * 7, 1 + r] { d.extend(x.to_le_bytes()); } } d.extend(b"\0ab\0cd\0"); };
      let mut d = b"WDB2".to_vec(); for x in [3u32, 3, 12, 7, 0x1234, 12000, 0] { d.extend(x.to_le_bytes()); } rec(&mut d); v.push(Seed { fmt: "dbc", name: "wdb2-basic".into(), bytes: d });
      let mut d = b"WDB2".to_vec(); for x in [3u32, 3, 12, 7, 0x1234, 15000, 0, 1, 3, 0, 0] { d.extend(x.to_le_bytes()); } d.extend(vec![0u8; 3 * 6]); rec(&mut d); v.push(Seed { fmt: "dbc", name: "wdb2-extended".into(), bytes: d });
      let mut d = b"WDB5".to_vec(); for x in [3u32, 3, 12, 7, 0x1234, 0x5678, 1, 3, 0] { d.extend(x.to_le_bytes()); } d.extend(0u16.to_le_bytes()); d.extend(0u16.to_le_bytes()); rec(&mut d); v.push(Seed { fmt: "dbc", name: "wdb5".into(), bytes: d }); }
    // BLP: the repository's fixtures plus encoder output with full mip chains
    if let Ok(rd) = std::fs::read_dir("/repo/file-formats/graphics/wow-blp/test-data") { let mut names: Vec<_> = rd.flatten().map(|e| e.path()).filter(|p| p.extension().map(|x| x == "blp").unwrap_or(false)).collect(); names.sort(); for p in names { if let Ok(d) = std::fs::read(&p) { if d.len() < 200_000 { v.push(Seed { fmt: "blp", name: p.file_name().unwrap().to_string_lossy().into_owned(), bytes: d }); } } } }
    for (n, b) in crate::c16::sample_blps(&mut rng) { v.push(Seed { fmt: "blp", name: n, bytes: b }); }
    // DBC: 5 records x 4 fields (one string field) + string block
    { let strings = b"\0alpha\0beta\0gamma\0".to_vec(); let mut d = b"WDBC".to_vec(); for x in [5u32, 4, 16, strings.len() as u32] { d.extend(x.to_le_bytes()); } for r in 0..5u32 { for x in [r + 1, 1 + (r % 3) * 6, r * 100, 0xFFFF_FFFFu32 - r] { d.extend(x.to_le_bytes()); } } d.extend(&strings); v.push(Seed { fmt: "dbc", name: "wdbc".into(), bytes: d }); }
    // WDT and WDL assembled chunk by chunk
    { let mut d = chunk(b"MVER", &18u32.to_le_bytes()); d.extend(chunk(b"MPHD", &[0u8; 32])); let mut main = vec![0u8; 64 * 64 * 8]; for k in [0usize, 65, 4095] { main[k * 8] = 1; } d.extend(chunk(b"MAIN", &main)); d.extend(chunk(b"MWMO", b"world\\wmo\\a.wmo\0")); d.extend(chunk(b"MODF", &[0u8; 64])); v.push(Seed { fmt: "wdt", name: "wdt".into(), bytes: d }); }
    { let mut d = chunk(b"MVER", &18u32.to_le_bytes()); d.extend(chunk(b"MWMO", b"")); d.extend(chunk(b"MWID", b"")); d.extend(chunk(b"MODF", b"")); let maof_pos = d.len(); d.extend(chunk(b"MAOF", &vec![0u8; 4096 * 4]));
      let off = d.len() as u32; d.extend(chunk(b"MARE", &vec![1u8; 545 * 2])); d.extend(chunk(b"MAHO", &[0u8; 32])); d[maof_pos + 8..maof_pos + 12].copy_from_slice(&off.to_le_bytes()); v.push(Seed { fmt: "wdl", name: "wdl".into(), bytes: d }); }
    // (attributes) special files on their own, every flag combination x block counts around the bit-array byte boundary
    for flags in [1u32, 2, 4, 8, 9, 12, 15] { for nblk in [1usize, 8, 9] {
        let mut d = vec![]; d.extend_from_slice(&100u32.to_le_bytes()); d.extend_from_slice(&flags.to_le_bytes());
        if flags & 1 != 0 { d.extend(rng.bytes(4 * nblk)); } if flags & 2 != 0 { d.extend(rng.bytes(8 * nblk)); } if flags & 4 != 0 { d.extend(rng.bytes(16 * nblk)); } if flags & 8 != 0 { d.extend(rng.bytes(nblk.div_ceil(8))); }
        v.push(Seed { fmt: "attr", name: format!("flags{flags}-blocks{nblk}"), bytes: d });
    } }
    v
}

// ---------- entry points ----------
/// run every public entry point for the format; returns a short outcome word
pub fn drive(fmt: &str, data: &[u8], scratch: &std::path::Path) -> &'static str {
    match fmt {
        "mpq" => { if std::fs::write(scratch, data).is_err() { return "io"; }
            match wow_mpq::Archive::open(scratch) { Err(_) => "err", Ok(mut a) => { let _ = a.get_info(); let names: Vec<String> = a.list().map(|l| l.into_iter().map(|e| e.name).collect()).unwrap_or_default();
                for n in names.iter().map(|s| s.as_str()).chain(["multi.txt", "enc.bin", "raw.bin", "(listfile)", "(attributes)"]).take(12) { let _ = a.find_file(n); let _ = a.read_file(n); } let _ = a.list_all(); let _ = a.verify_signature(); "ok" } } }
        "patch" => match wow_mpq::patch::PatchFile::parse(data) { Err(_) => "err", Ok(p) => { let base: Vec<u8> = (0..400).map(|k| (k * 7 % 251) as u8).collect(); let _ = wow_mpq::patch::apply_patch(&p, &base); "ok" } },
        "m2" => { let a = wow_m2::parse_m2(&mut Cursor::new(data)).is_ok(); let b = wow_m2::M2Model::parse(&mut Cursor::new(data)).is_ok(); let _ = wow_m2::anim::AnimFile::parse(&mut Cursor::new(data)); if a || b { "ok" } else { "err" } }
        "m2c" => { let a = wow_m2::parse_m2(&mut Cursor::new(data)).is_ok(); let b = wow_m2::M2Model::parse_chunked(&mut Cursor::new(data)).is_ok(); if a || b { "ok" } else { "err" } }
        "anim" => { let a = wow_m2::anim::AnimFile::parse(&mut Cursor::new(data)); let b = wow_m2::anim::AnimFile::parse_with_format(&mut Cursor::new(data), wow_m2::anim::AnimFormat::Modern).is_ok();
            let c = wow_m2::anim::AnimFile::parse_validated(&mut Cursor::new(data)).is_ok(); if let Ok(f) = &a { let _ = f.memory_usage(); let _ = f.validate(); } if a.is_ok() || b || c { "ok" } else { "err" } }
        "skin" => { let a = wow_m2::skin::SkinFile::parse(&mut Cursor::new(data)).is_ok(); let _ = wow_m2::skin::parse_embedded_skin(&mut Cursor::new(data), 256); if a { "ok" } else { "err" } }
        "adt" => if wow_adt::parse_adt(&mut Cursor::new(data)).is_ok() { "ok" } else { "err" },
        "wmo" => { let a = wow_wmo::parse_wmo(&mut Cursor::new(data)).is_ok(); let b = wow_wmo::WmoParser::new().parse_root(&mut Cursor::new(data)).is_ok(); if a || b { "ok" } else { "err" } }
        "blp" => match wow_blp::parser::parse_blp(data) { Err(_) => "err", Ok(img) => { let _ = wow_blp::convert::blp_to_image(&img, 0); "ok" } },
        "attr" => { let b = bytes::Bytes::copy_from_slice(data); let mut any = false; for bc in [0usize, 1, 2, 7, 8, 9, 15, 16, 17, 100] { any |= wow_mpq::special_files::Attributes::parse(&b, bc).is_ok(); } if any { "ok" } else { "err" } }
        "dbc" => match wow_cdbc::DbcParser::parse_bytes(data) { Err(_) => "err", Ok(p) => { let _ = p.parse_records(); "ok" } },
        "wdt" => if wow_wdt::WdtReader::new(Cursor::new(data), wow_wdt::version::WowVersion::WotLK).read().is_ok() { "ok" } else { "err" },
        "wdl" => if wow_wdl::parser::WdlParser::new().parse(&mut Cursor::new(data)).is_ok() { "ok" } else { "err" },
        _ => "err",
    }
}

// ---------- mutations ----------
/// deterministic list of mutated inputs for one seed: (description, bytes)
pub fn mutations(s: &Seed, seed: u64, thorough: bool) -> Vec<(String, Vec<u8>)> {
    let b = &s.bytes; let n = b.len();
    let mut rng = Rng::new(seed ^ (n as u64) << 8 ^ s.name.len() as u64);
    let mut out: Vec<(String, Vec<u8>)> = vec![("intact".into(), b.clone())];
    // prefixes
    let pstep = if thorough { 1 } else { (n / 48).max(1) };
    let mut k = 0; while k < n { out.push((format!("prefix {k}"), b[..k].to_vec())); k += if k < 256 && thorough { 1 } else { pstep }; }
    for k in 1..=8usize.min(n) { out.push((format!("tail-cut {k}"), b[..n - k].to_vec())); }
    // boundary values in every aligned dword of the first 1 KiB, and in every chunk-size field of chunked files
    let vals = |len: usize| -> Vec<u32> { vec![0, 1, 0x7FFF_FFFF, 0x8000_0000, 0xFFFF_FFFF, (len as u32).wrapping_sub(1), len as u32, (len as u32).wrapping_add(1)] };
    let mut fields: Vec<usize> = (0..n.min(1024) / 4).map(|i| i * 4).collect();
    if matches!(s.fmt, "adt" | "wmo" | "wdt" | "wdl" | "m2c") { let mut p = 0usize; while p + 8 <= n { fields.push(p + 4); let sz = u32::from_le_bytes([b[p + 4], b[p + 5], b[p + 6], b[p + 7]]) as usize; if sz > n { break; } // sub-chunks of MCNK / MOGP
            if &b[p..p + 4] == b"KNCM" { let mut q = p + 8 + 136; while q + 8 <= (p + 8 + sz).min(n) { fields.push(q + 4); let ss = u32::from_le_bytes([b[q + 4], b[q + 5], b[q + 6], b[q + 7]]) as usize; q += 8 + ss; } for o in (0..136).step_by(4) { fields.push(p + 8 + o); } }
            // water: the populated rows of the 256-entry header table and everything they point at (instances, attributes, bitmaps, vertex data)
            if &b[p..p + 4] == b"O2HM" { let body = p + 8; for e in 0..256usize { let o = body + e * 12; if o + 12 <= n && (e == 0 || b[o..o + 12].iter().any(|x| *x != 0)) { for k in 0..3 { fields.push(o + k * 4); } } } for o in (3072..sz.min(3072 + 640)).step_by(4) { fields.push(body + o); } }
            // the first dwords of every auxiliary chunk of a chunked model
            if s.fmt == "m2c" && &b[p..p + 4] != b"MD21" { for o in (0..sz.min(16)).step_by(4) { fields.push(p + 8 + o); } }
            p += 8 + sz; } }
    if s.fmt == "anim" { for o in (0..n.min(400)).step_by(4) { fields.push(o); } }
    if s.fmt == "mpq" { // tables live at the end: include dwords of the last 512 bytes (still encrypted, so values become noise after decryption) and the header
        for i in (n.saturating_sub(512) / 4 * 4..n.saturating_sub(3)).step_by(4) { fields.push(i); } }
    fields.sort(); fields.dedup();
    let take_every = if thorough { 1 } else { 3 };
    for (fi, &o) in fields.iter().enumerate() { if o + 4 > n || (fi as u64 + seed) % take_every != 0 { continue; } for v in vals(n) { let mut m = b.clone(); m[o..o + 4].copy_from_slice(&v.to_le_bytes()); if m != *b { out.push((format!("dword@{o}={v:#x}"), m)); } } }
    // pairs over the first 8 dwords (two hostile header fields at once)
    let hv = [0u32, 1, 0xFFFF_FFFF, n as u32, 0x200];
    for i in 0..8usize.min(n / 4) { for j in (i + 1)..8usize.min(n / 4) { for &x in &hv { for &y in &hv { if !thorough && !matches!(s.fmt, "dbc" | "attr" | "patch" | "skin" | "anim") && (i + j + x as usize + y as usize + seed as usize) % 4 != 0 { continue; } let mut m = b.clone(); m[i * 4..i * 4 + 4].copy_from_slice(&x.to_le_bytes()); m[j * 4..j * 4 + 4].copy_from_slice(&y.to_le_bytes()); out.push((format!("dwords@{},{}={x:#x},{y:#x}", i * 4, j * 4), m)); } } } }
    // fields that belong together, both hostile at once: the (offset, size) entries of a BLP mipmap locator (offsets at 28 / 20,
    // the sizes 64 bytes behind them) and the adjacent (count, offset) dword pairs of model / skin / animation headers
    {
        let nn = n as u32;
        let combos: [(u32, u32); 7] = [(nn.wrapping_add(1), 0), (nn, 0), (0xFFFF_FFFF, 0), (0xFFFF_FFF0, 0x20), (nn.wrapping_sub(1), 2), (0, nn.wrapping_add(1)), (nn.wrapping_add(64), 1)];
        if s.fmt == "blp" && n >= 160 {
            let base = if &b[..4] == b"BLP2" { 20 } else { 28 };
            for lvl in 0..16usize { let (o, z) = (base + 4 * lvl, base + 64 + 4 * lvl); if z + 4 > n { break; }
                let used = u32::from_le_bytes([b[z], b[z + 1], b[z + 2], b[z + 3]]) != 0 || lvl == 0;
                if !used && lvl > 1 { continue; }
                for &(ov, sv) in &combos { let mut m = b.clone(); m[o..o + 4].copy_from_slice(&ov.to_le_bytes()); m[z..z + 4].copy_from_slice(&sv.to_le_bytes()); out.push((format!("locator[{lvl}]=({ov:#x},{sv:#x})"), m)); } }
        }
        if matches!(s.fmt, "m2" | "skin" | "anim" | "m2c") {
            let lim = n.min(400) / 4;
            for i in 0..lim.saturating_sub(1) { if !thorough && (i as u64 + seed) % 3 != 0 { continue; } let o = i * 4; if o + 8 > n { break; }
                for &(ov, sv) in &combos[..5] { let mut m = b.clone(); m[o..o + 4].copy_from_slice(&sv.max(1).to_le_bytes()); m[o + 4..o + 8].copy_from_slice(&ov.to_le_bytes()); out.push((format!("pair@{o}=(count {:#x}, offset {ov:#x})", sv.max(1)), m)); } }
        }
    }
    // chunk reordering / duplication / deletion
    if matches!(s.fmt, "adt" | "wmo" | "wdt" | "wdl" | "m2c") { let mut cs: Vec<(usize, usize)> = vec![]; let mut p = 0usize; while p + 8 <= n { let sz = u32::from_le_bytes([b[p + 4], b[p + 5], b[p + 6], b[p + 7]]) as usize; if p + 8 + sz > n { break; } cs.push((p, p + 8 + sz)); p += 8 + sz; }
        let mut picks: Vec<usize> = (0..cs.len().min(14)).collect(); for k in cs.len().saturating_sub(3)..cs.len() { if !picks.contains(&k) { picks.push(k); } }
        for i in picks { let mut del = vec![]; let mut dup = vec![]; for (k, c) in cs.iter().enumerate() { if k != i { del.extend(&b[c.0..c.1]); } dup.extend(&b[c.0..c.1]); if k == i { dup.extend(&b[c.0..c.1]); } } out.push((format!("delete chunk {i}"), del)); out.push((format!("duplicate chunk {i}"), dup));
            // a chunk moved far away from its neighbours: to the end of the file, and right behind the first chunk
            if cs.len() > 2 { let mv = |to_end: bool| -> Vec<u8> { let mut o = vec![]; if !to_end { o.extend(&b[cs[0].0..cs[0].1]); if i != 0 { o.extend(&b[cs[i].0..cs[i].1]); } }
                    for (k, c) in cs.iter().enumerate() { if k != i && (to_end || k != 0) { o.extend(&b[c.0..c.1]); } } if to_end { o.extend(&b[cs[i].0..cs[i].1]); } o };
                out.push((format!("move chunk {i} to the end"), mv(true))); if i > 1 { out.push((format!("move chunk {i} behind the first"), mv(false))); } }
            if i + 1 < cs.len() { let mut sw = vec![]; for (k, _) in cs.iter().enumerate() { let c = if k == i { cs[i + 1] } else if k == i + 1 { cs[i] } else { cs[k] }; sw.extend(&b[c.0..c.1]); } out.push((format!("swap chunks {i},{}", i + 1), sw)); } } }
    // havoc
    for h in 0..(if thorough { 400 } else { 60 }) { let mut m = b.clone(); for _ in 0..rng.range(1, 6) { if m.is_empty() { break; } let p = rng.below(m.len() as u64) as usize; match rng.below(5) { 0 => m[p] = rng.next() as u8, 1 => m[p] ^= 1 << rng.below(8), 2 => { m.insert(p, rng.next() as u8); } 3 => { m.remove(p); } _ => { let e = (p + rng.range(1, 16) as usize).min(m.len()); for x in &mut m[p..e] { *x = 0xFF; } } } } out.push((format!("havoc {h}"), m)); }
    out
}

// ---------- worker ----------
pub fn child(args: &[String]) -> i32 {
    let seed: u64 = args.first().and_then(|s| s.parse().ok()).unwrap_or(1);
    let thorough = args.get(1).map(|s| s == "thorough").unwrap_or(false);
    let from: usize = args.get(2).and_then(|s| s.parse().ok()).unwrap_or(0);
    let scratch = std::path::PathBuf::from(args.get(3).cloned().unwrap_or_else(|| "/tmp/c05-scratch.bin".into()));
    // remember where the last panic happened (file and message, not the line: lines move with every edit)
    static LAST: std::sync::Mutex<String> = std::sync::Mutex::new(String::new());
    std::panic::set_hook(Box::new(|info| { if std::env::var("WVH_VERBOSE_PANIC").is_ok() { eprintln!("{info}"); } let loc = info.location().map(|l| l.file().rsplit('/').take(3).collect::<Vec<_>>().into_iter().rev().collect::<Vec<_>>().join("/")).unwrap_or_default(); let msg = info.payload().downcast_ref::<&str>().map(|s| s.to_string()).or_else(|| info.payload().downcast_ref::<String>().cloned()).unwrap_or_default(); let msg: String = msg.chars().filter(|c| !c.is_ascii_digit()).take(60).collect(); if let Ok(mut g) = LAST.lock() { *g = format!("{loc}: {msg}"); } }));
    let out = std::io::stdout(); let mut out = out.lock();
    let mut idx = 0usize;
    for s in seeds() {
        for (what, data) in mutations(&s, seed, thorough) {
            if idx < from { idx += 1; continue; }
            if let Ok(only) = std::env::var("WVH_C05_ONLY") { if format!("{} {} {}", s.fmt, s.name, what) != only { idx += 1; continue; } }
            let _ = writeln!(out, "BEGIN {idx} {} {} {} ({} bytes)", s.fmt, s.name, what, data.len()); let _ = out.flush();
            PEAK.store(CUR.load(Ordering::Relaxed), Ordering::Relaxed); BIGGEST.store(0, Ordering::Relaxed);
            let base = CUR.load(Ordering::Relaxed);
            let t0 = std::time::Instant::now();
            let (fmt, sc) = (s.fmt, scratch.clone());
            let r = std::panic::catch_unwind(move || drive(fmt, &data, &sc));
            let ms = t0.elapsed().as_millis();
            let peak = PEAK.load(Ordering::Relaxed).saturating_sub(base);
            let res = match r { Ok(w) => w.to_string(), Err(_) => format!("PANIC {}", LAST.lock().map(|g| g.clone()).unwrap_or_default()) };
            let _ = writeln!(out, "END {idx} {ms} {peak} {res}"); let _ = out.flush();
            idx += 1;
        }
    }
    let _ = writeln!(out, "DONE {idx}");
    0
}

// ---------- supervisor ----------
pub fn run(ctx: &mut Ctx) {
    let exe = std::env::current_exe().expect("exe");
    let scratch = ctx.out.dir.join("c05-scratch.bin");
    let tier = if ctx.thorough { "thorough" } else { "quick" };
    let mut from = 0usize; let mut restarts = 0;
    let alloc_limit = 256usize << 20; // inputs are a few KiB to ~1 MiB: anything beyond this is out of proportion
    loop {
        let mut ch = match std::process::Command::new(&exe).args(["c05child", &ctx.seed.to_string(), tier, &from.to_string(), scratch.to_str().unwrap_or("")]).stdout(std::process::Stdio::piped()).stderr(std::process::Stdio::null()).spawn() { Ok(c) => c, Err(e) => { ctx.out.oracle(false, "cannot-start-worker", &e.to_string()); return; } };
        let stdout = ch.stdout.take().expect("stdout");
        let (tx, rx) = std::sync::mpsc::channel::<String>();
        std::thread::spawn(move || { for l in BufReader::new(stdout).lines().map_while(Result::ok) { if tx.send(l).is_err() { break; } } });
        let mut current: Option<(usize, String)> = None; let mut done = false;
        loop {
            match rx.recv_timeout(std::time::Duration::from_secs(25)) {
                Ok(l) => {
                    if let Some(r) = l.strip_prefix("BEGIN ") { let (i, d) = r.split_once(' ').unwrap_or((r, "")); current = Some((i.parse().unwrap_or(0), d.to_string())); }
                    else if let Some(r) = l.strip_prefix("END ") { let mut it = r.splitn(4, ' '); let _i = it.next(); let ms: u64 = it.next().and_then(|x| x.parse().ok()).unwrap_or(0); let peak: usize = it.next().and_then(|x| x.parse().ok()).unwrap_or(0); let res = it.next().unwrap_or("");
                        let desc = current.as_ref().map(|c| c.1.clone()).unwrap_or_default(); let fmt = desc.split(' ').next().unwrap_or("").to_string();
                        ctx.out.stat(&format!("c05.{fmt}.{}", res.split(' ').next().unwrap_or("")));
                        if let Some(p) = res.strip_prefix("PANIC ") { ctx.out.oracle(false, &format!("panic@{p}"), &desc); }
                        else if peak > alloc_limit { ctx.out.oracle(false, &format!("allocation-out-of-proportion@{fmt}"), &format!("{desc}: peak {} MiB", peak >> 20)); }
                        else if ms > 10_000 { ctx.out.oracle(false, &format!("slow@{fmt}"), &format!("{desc}: {ms} ms")); }
                        else { ctx.out.oracle(true, "", ""); if res == "err" { ctx.out.nontrivial(desc.as_bytes()); } }
                        if let Some(c) = &current { from = c.0 + 1; } current = None; }
                    else if l.starts_with("DONE") { done = true; break; }
                }
                Err(std::sync::mpsc::RecvTimeoutError::Timeout) => { let _ = ch.kill(); let d = current.as_ref().map(|c| c.1.clone()).unwrap_or_default(); ctx.out.oracle(false, &format!("hang@{}", d.split(' ').next().unwrap_or("")), &d); if let Some(c) = &current { from = c.0 + 1; } break; }
                Err(std::sync::mpsc::RecvTimeoutError::Disconnected) => { // worker died
                    if let Some(c) = &current { ctx.out.oracle(false, &format!("process-abort@{}", c.1.split(' ').next().unwrap_or("")), &c.1); from = c.0 + 1; } else { done = true; } break; }
            }
        }
        let _ = ch.wait();
        if done { break; }
        restarts += 1; ctx.out.stat("c05.worker_restarts");
        if restarts > 60 { ctx.out.oracle(false, "too-many-worker-deaths", &format!("stopped at case {from}")); break; }
    }
    let _ = std::fs::remove_file(&scratch);
    // correspondence of the two front loops with the Lean model, on mutated inputs (run in-process: both are safe
    // by now; a regression that makes them unsafe is caught by the supervised run above)
    let mut n_hdr = 0; let mut n_walk = 0;
    // each call runs on a helper thread with a time limit: a loop that no longer terminates must end in a verdict, not in a stuck check
    fn timed<T: Send + 'static>(f: impl FnOnce() -> T + Send + 'static) -> Option<T> { let (tx, rx) = std::sync::mpsc::channel(); std::thread::spawn(move || { let _ = tx.send(f()); }); rx.recv_timeout(std::time::Duration::from_secs(10)).ok() }
    let mut stuck = false;
    for s in seeds() {
        if stuck { break; }
        if s.fmt != "mpq" && s.fmt != "adt" { continue; }
        for (k, (what, data)) in mutations(&s, ctx.seed, false).into_iter().enumerate() {
            if s.fmt == "mpq" {
                if !(what.starts_with("prefix") || what.starts_with("dwords@") || (what.starts_with("dword@") && k % 4 == 0)) || n_hdr > 900 { continue; }
                let head: Vec<u8> = data[..data.len().min(1600)].to_vec();
                let h2 = head.clone();
                let Some(r) = timed(move || std::panic::catch_unwind(move || wow_mpq::header::find_header(&mut Cursor::new(&h2[..])).map(|x| x.0).map_err(|e| e.to_string()))) else { ctx.out.oracle(false, "hang@mpq", &format!("header search does not return: mpq {} {what}", s.name)); stuck = true; break; };
                let ans = match r { Ok(Ok(off)) => format!("found {off}"), Ok(Err(m)) => { if m.contains("No MPQ header found") { "none".to_string() } else { continue } } Err(_) => "panic".to_string() };
                ctx.out.case(&format!("c05hdr {}", crate::c18_wdt::canon_rle(&head)), &ans); n_hdr += 1;
            } else {
                if data.len() > 24000 || n_walk > 500 || k % 3 != 0 { continue; }
                let d2 = data.clone();
                let Some(r) = timed(move || std::panic::catch_unwind(move || wow_adt::discover_chunks(&mut Cursor::new(d2)).map_err(|e| e.to_string()))) else { ctx.out.oracle(false, "hang@adt", &format!("chunk discovery does not return: adt {} {what}", s.name)); stuck = true; break; };
                let ans = match r { Ok(Ok(d)) => { let mut v: Vec<(u64, String)> = vec![]; for (id, locs) in d.chunks.iter() { for l in locs { v.push((l.offset, format!("{}:{}", hex(&id.0), l.size))); } } v.sort(); if v.is_empty() { "-".to_string() } else { v.into_iter().map(|x| x.1).collect::<Vec<_>>().join(",") } } Ok(Err(_)) => "too-small".to_string(), Err(_) => "panic".to_string() };
                ctx.out.case(&format!("c05walk {}", crate::c18_wdt::canon_rle(&data)), &ans); n_walk += 1;
            }
        }
    }
}
