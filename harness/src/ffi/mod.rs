//! The C API's current source, compiled into the harness (the crate itself only builds as cdylib/staticlib).
#![allow(clippy::all, dead_code, non_snake_case, unused_imports, unused_variables, unsafe_op_in_unsafe_fn, static_mut_refs)]
#[path = "/repo/ffi/storm-ffi/src/lib.rs"]
pub mod storm;
