//! C03 — lossless codecs invert, never expand, accept their own output; ADPCM preserves length.
use crate::common::*;
use wow_mpq::compression::flags;
use wow_mpq::{Error, compress, decompress};

pub fn data_classes(rng: &mut Rng, len: usize) -> Vec<(&'static str, Vec<u8>)> {
    let mut v: Vec<(&'static str, Vec<u8>)> = vec![];
    v.push(("constant", vec![rng.next() as u8 | 1; len]));
    v.push(("zeros", vec![0u8; len]));
    v.push(("random", rng.bytes(len)));
    let p = rng.range(2, 9) as usize;
    let pat = rng.bytes(p);
    v.push(("periodic", (0..len).map(|i| pat[i % p]).collect()));
    // sparse: mostly zero with literal runs of awkward lengths (0x7f..0x83, 1, 2, 3)
    let mut s = vec![0u8; len];
    let mut i = 0usize;
    while i < len {
        let run = *rng.pick(&[1usize, 2, 3, 5, 0x7f, 0x80, 0x81, 0x82, 0x83, 0x101, 0x181]);
        for k in i..(i + run).min(len) { s[k] = (rng.next() as u8) | 1; }
        i += run + *rng.pick(&[1usize, 2, 3, 4, 0x82, 0x83, 0x85, 0x86, 0x87, 0x109]);
    }
    v.push(("sparse", s));
    let text: Vec<u8> = (0..len).map(|i| b"the quick brown fox jumps over the lazy dog "[(i + (i / 97)) % 44]).collect();
    v.push(("text", text));
    v
}

fn err_kind(e: &Error) -> &'static str {
    match e {
        Error::CompressionBomb { .. } => "bomb",
        // raised by the progress monitor after a codec stage ran (garbage input decoding to more than declared):
        // the request got past validation, which is all `c03pre` asks
        Error::ResourceExhaustion(m) if m.contains("Decompression size limit") => "codec",
        Error::ResourceExhaustion(_) => "exhaustion",
        Error::MaliciousContent(_) => "malicious",
        Error::Compression(m) if m.contains("Empty") => "empty",
        Error::Compression(m) if m.contains("size mismatch") => "invalid",
        Error::InvalidFormat(_) => "empty",
        _ => "codec",
    }
}

const LOSSLESS: [(u8, &str); 7] = [(flags::ZLIB, "zlib"), (flags::BZIP2, "bzip2"), (flags::LZMA, "lzma"), (flags::SPARSE, "sparse"),
    (flags::PKWARE, "pkware"), (flags::HUFFMAN, "huffman"), (flags::IMPLODE, "implode")];

fn one(ctx: &mut Ctx, class: &str, d: &[u8], m: u8, mname: &str) {
    let desc = format!("method={mname}({m:#x}) class={class} len={}", d.len());
    let c = match std::panic::catch_unwind(|| compress(d, m)) {
        Err(_) => { ctx.out.oracle(false, &format!("compress-panics-{mname}"), &desc); return; }
        Ok(Err(e)) => {
            // Huffman and implode have no compressor: reporting an error is what the property allows
            if m == flags::HUFFMAN || m == flags::IMPLODE { ctx.out.stat(&format!("c03.{mname}.no_compressor")); }
            else { ctx.out.oracle(false, &format!("compress-fails-{mname}"), &format!("{desc}: {e}")); }
            return;
        }
        Ok(Ok(c)) => c,
    };
    ctx.out.oracle(c.len() <= d.len(), "stored-form-expands", &format!("{desc}: stored {} bytes", c.len()));
    let framed = c.len() < d.len();
    ctx.out.stat(&format!("c03.{mname}.{}", if framed { "framed" } else { "raw" }));
    if !framed {
        ctx.out.oracle(c == d, "raw-form-differs", &desc);
        return;
    }
    ctx.out.oracle(c[0] == m, "method-byte", &format!("{desc}: first byte {:#x}", c[0]));
    let enc = &c[1..];
    ctx.out.case(&format!("c03frame {} {} {}", m, d.len(), enc.len()), "framed");
    let r = std::panic::catch_unwind(|| decompress(enc, m, d.len()));
    let ratio = d.len() / enc.len().max(1);
    match r {
        Err(_) => { ctx.out.oracle(false, &format!("decompress-panics-{mname}"), &desc); }
        Ok(Ok(out)) => {
            ctx.out.case(&format!("c03pre {} {} {}", enc.len(), d.len(), m), "pass");
            ctx.out.oracle(out == d, &format!("roundtrip-mismatch-{mname}"), &format!("{desc}: got {} bytes", out.len()));
            if out == d { ctx.out.nontrivial(format!("{desc}{}", d.len() ^ enc.len()).as_bytes()); }
            if m == flags::SPARSE && enc.len() < 4000 { ctx.out.case(&format!("c03sparse {} {}", hex(enc), d.len()), &hex(&out)); }
        }
        Ok(Err(e)) => {
            let k = err_kind(&e);
            if k == "bomb" || k == "exhaustion" || k == "malicious" {
                ctx.out.case(&format!("c03pre {} {} {}", enc.len(), d.len(), m), &format!("rej {k}"));
                // the compressor's own output is rejected by the ratio heuristics
                ctx.out.oracle(false, "own-output-rejected-by-ratio-limit", &format!("{desc}: {} -> {} bytes, ratio {}:1: {e}", d.len(), enc.len(), ratio));
                ctx.out.stat(&format!("c03.rejected.{mname}"));
            } else {
                ctx.out.oracle(false, &format!("own-output-rejected-{mname}"), &format!("{desc}: {e}"));
            }
        }
    }
}

pub fn run(ctx: &mut Ctx) {
    let mut lens: Vec<usize> = vec![0, 1, 2, 3, 4, 5, 6, 8, 16, 17, 63, 64, 127, 128, 129, 130, 131, 255, 256, 257, 511, 512, 513, 1000, 4095, 4096, 4097, 65535, 65536];
    if ctx.thorough { lens.extend([65537, 131072, 262144, 1 << 20, (1 << 21) - 1, 1 << 21]); for _ in 0..40 { lens.push(ctx.rng.range(1, 70000) as usize); } }
    else { lens.extend([1 << 20, (1 << 20) + 1, 1 << 21]); for _ in 0..6 { lens.push(ctx.rng.range(1, 20000) as usize); } }
    for &len in &lens {
        let mut rng = ctx.rng.clone();
        let classes = data_classes(&mut rng, len);
        ctx.rng = rng;
        for (class, d) in &classes {
            for (m, mname) in LOSSLESS {
                // the in-tree Huffman / implode compressors are slow on large inputs; keep them to moderate sizes
                if (m == flags::HUFFMAN || m == flags::IMPLODE || m == flags::PKWARE) && len > 70000 { continue; }
                one(ctx, class, d, m, mname);
            }
        }
    }
    // in-tree sparse compressor against its Lean model (`sparseCompress`), byte for byte, plus the round trip
    {
        let mut inputs: Vec<Vec<u8>> = vec![];
        // every string over {0, x} up to length 10 (the scan, the three-zero rule and the tail flush are all decided here)
        let upto = if ctx.thorough { 12 } else { 10 };
        for len in 0..=upto { for bits in 0u32..(1 << len) { inputs.push((0..len).map(|i| if bits >> i & 1 == 1 { 0x41 + i as u8 } else { 0 }).collect()); } }
        let zr = [1usize, 2, 3, 4, 5, 0x7f, 0x80, 0x81, 0x82, 0x83, 0x84, 0x85, 0x86, 0x87, 0x88, 0x104, 0x105, 0x107, 0x108, 0x10a, 0x18b];
        let lr = [1usize, 2, 3, 4, 0x7e, 0x7f, 0x80, 0x81, 0x82, 0x83, 0x100, 0x101, 0x102, 0x103, 0x181, 0x182];
        for _ in 0..(if ctx.thorough { 3000 } else { 400 }) {
            let mut d = vec![];
            let runs = ctx.rng.range(1, 6);
            let mut zero_first = ctx.rng.below(2) == 0;
            for _ in 0..runs {
                if zero_first { let n = *ctx.rng.pick(&zr); d.extend(std::iter::repeat(0u8).take(n)); }
                else {
                    let n = *ctx.rng.pick(&lr);
                    let start = d.len();
                    for _ in 0..n { d.push(ctx.rng.next() as u8 | 1); }
                    // isolated zeros (one or two in a row) stay inside the literal chunk
                    for _ in 0..ctx.rng.below(3) { if n > 3 { let k = start + ctx.rng.below(n as u64 - 2) as usize; d[k] = 0; if ctx.rng.below(2) == 0 { d[k + 1] = 0; } } }
                }
                zero_first = !zero_first;
            }
            inputs.push(d);
        }
        for d in &inputs {
            let r = std::panic::catch_unwind(|| compress(d, flags::SPARSE));
            let ans = match &r {
                Err(_) => "panic".to_string(),
                Ok(Err(_)) => "err".to_string(),
                Ok(Ok(c)) => if c.len() < d.len() && c[0] == flags::SPARSE { hex(&c[1..]) } else { "raw".to_string() },
            };
            ctx.out.case(&format!("c03sparsec {}", hex(d)), &ans);
            ctx.out.stat(&format!("c03.sparsec.{}", if ans == "raw" { "raw" } else if ans.len() > 5 { "framed" } else { &ans }));
            if let Ok(Ok(c)) = &r {
                ctx.out.oracle(c.len() <= d.len(), "stored-form-expands", &format!("sparse len={}", d.len()));
                if c.len() < d.len() {
                    let back = std::panic::catch_unwind(|| decompress(&c[1..], flags::SPARSE, d.len()));
                    ctx.out.oracle(matches!(&back, Ok(Ok(o)) if o == d), "roundtrip-mismatch-sparse", &format!("structured input len={} {}", d.len(), hex(&d[..d.len().min(40)])));
                } else { ctx.out.oracle(c == d, "raw-form-differs", &format!("sparse len={}", d.len())); }
            } else { ctx.out.oracle(false, "compress-fails-sparse", &format!("structured input len={}", d.len())); }
        }
    }
    // selectors: which ones the compressor supports at all
    let sample: Vec<u8> = (0..400).map(|i| (i / 7) as u8).collect();
    for f in 0u16..256 {
        let f = f as u8;
        let r = std::panic::catch_unwind(|| compress(&sample, f));
        let ans = match r { Ok(Ok(_)) => "ok", Ok(Err(_)) => "unsupported", Err(_) => "panic" };
        ctx.out.case(&format!("c03sel {}", f), ans);
    }
    // acceptance arithmetic on synthetic (clen, dlen, method) — validation runs before any codec
    let n = if ctx.thorough { 20000 } else { 3000 };
    for _ in 0..n {
        let clen = match ctx.rng.below(6) { 0 => ctx.rng.range(1, 120), 1 => ctx.rng.range(500, 530), 2 => ctx.rng.range(4090, 4100), 3 => ctx.rng.range(65530, 65540), 4 => ctx.rng.range(1, 3000), _ => ctx.rng.range(1, 200) } as usize;
        let ratio = match ctx.rng.below(8) { 0 => ctx.rng.range(0, 60), 1 => ctx.rng.range(240, 260), 2 => ctx.rng.range(495, 505), 3 => ctx.rng.range(995, 1005), 4 => ctx.rng.range(1990, 2010), 5 => ctx.rng.range(4990, 5010), 6 => ctx.rng.range(9990, 10010), _ => ctx.rng.range(0, 60000) } as usize;
        let dlen = clen * ratio + ctx.rng.below(clen as u64) as usize;
        if dlen > 120 * 1024 * 1024 { continue; }
        let m = *ctx.rng.pick(&[0x02u8, 0x10, 0x12, 0x20, 0x08, 0x01, 0x40, 0x80, 0x04, 0x42, 0x82, 0x88, 0xC0]);
        let data = vec![0xA5u8; clen];
        let r = std::panic::catch_unwind(|| decompress(&data, m, dlen));
        let ans = match r {
            Err(_) => "pass".to_string(), // got past validation and the codec panicked on garbage (C05's subject)
            Ok(Ok(_)) => "pass".to_string(),
            Ok(Err(e)) => { let k = err_kind(&e); if k == "codec" || k == "invalid" { "pass".into() } else { format!("rej {k}") } }
        };
        ctx.out.case(&format!("c03pre {} {} {}", clen, dlen, m), &ans);
        ctx.out.stat(&format!("c03.pre.{}", ans.replace(' ', "_")));
    }
    // ADPCM, alone and combined with every second-stage method the compressor supports: length and channel interleaving
    // preserved, own output accepted; smooth, square-wave and click signals (transients make the ADPCM stream longer)
    // (stereo: the steady channel is the left one, then the right one - a transient in either must not disturb the other)
    for &(m0, ch, steady) in &[(flags::ADPCM_MONO, 1usize, 0usize), (flags::ADPCM_STEREO, 2, 0), (flags::ADPCM_STEREO, 2, 1)] { for second in [0u8, flags::SPARSE, flags::ZLIB, flags::BZIP2, flags::PKWARE, flags::HUFFMAN] { for shape in 0..3u8 {
        let m = m0 | second;
        if second != 0 && std::panic::catch_unwind(|| compress(&[0u8; 64], m)).map(|r| r.is_err()).unwrap_or(true) { ctx.out.stat(&format!("c03.adpcm_combo_unsupported.{m:#x}")); continue; }
        for &samples in &[1usize, 2, 3, 16, 100, 1000, 4001] {
            if second != 0 && samples < 16 { continue; }
            let mut d = Vec::new();
            for i in 0..samples { for c in 0..ch {
                let v: i16 = if c == steady && ch == 2 { 1000 } else { match shape { 0 => ((i as f32 * 0.05).sin() * 8000.0) as i16, 1 => if (i / 7) % 2 == 0 { 12000 } else { -12000 }, _ => if i % 53 == 0 { 30000 } else { 0 } } };
                d.extend_from_slice(&v.to_le_bytes()); } }
            let desc = format!("adpcm selector={m:#x} channels={ch} steady={} samples={samples} shape={}", if ch == 2 { ["left", "right"][steady] } else { "-" }, ["sine", "square", "clicks"][shape as usize]);
            let r = std::panic::catch_unwind(|| compress(&d, m).and_then(|c| if c.len() < d.len() { decompress(&c[1..], m, d.len()) } else { Ok(c) }));
            match r {
                Ok(Ok(out)) => {
                    ctx.out.oracle(out.len() == d.len(), "adpcm-length", &format!("{desc}: {} -> {}", d.len(), out.len()));
                    if out.len() == d.len() && ch == 2 && samples >= 16 {
                        // the steady channel was constant 1000: it must stay near-constant whatever the other channel does
                        // (no swap, no decoder state crossing over at a step-size marker)
                        let worst = (0..samples).map(|i| (i16::from_le_bytes([out[4 * i + 2 * steady], out[4 * i + 2 * steady + 1]]) as i32 - 1000).abs()).max().unwrap_or(0);
                        ctx.out.oracle(worst < 600, "adpcm-interleaving", &format!("{desc}: steady channel deviates by {worst}"));
                    }
                }
                Ok(Err(e)) => ctx.out.oracle(false, if second == 0 { "adpcm-error" } else if second == flags::PKWARE { "own-output-rejected-pkware" } else { "adpcm-combination-rejects-own-output" }, &format!("{desc}: {e}")),
                Err(_) => ctx.out.oracle(false, "adpcm-panic", &desc),
            }
        }
    } } }
    // ADPCM against Model.C03Adpcm, byte for byte: the encoder on generated signals (both channel counts, lengths the
    // encoder refuses included), the decoder on the encoder's streams, on mutated streams (markers inserted, bytes
    // flipped, truncated) and on other declared sizes
    {
        let n_sig = if ctx.thorough { 600 } else { 90 };
        for k in 0..n_sig {
            let ch = 1 + k % 2;
            let rng = &mut ctx.rng;
            let nbytes = match k % 9 { 0 => rng.below(9) as usize, 1 => 2 * ch * rng.range(1, 4) as usize + 1, _ => 2 * ch * rng.range(1, 60) as usize + if rng.chance(1, 12) { 2 } else { 0 } };
            let shape = rng.below(5);
            let mut d = Vec::with_capacity(nbytes);
            let mut v: i32 = rng.below(65536) as i32 - 32768;
            for i in 0..nbytes.div_ceil(2) {
                v = match shape { 0 => v + rng.below(41) as i32 - 20, 1 => if rng.chance(1, 9) { rng.below(65536) as i32 - 32768 } else { v }, 2 => ((i as f32 * 0.3).sin() * 20000.0) as i32, 3 => if i % 2 == 0 { 32767 } else { -32768 }, _ => rng.below(65536) as i32 - 32768 }.clamp(-32768, 32767);
                d.extend_from_slice(&(v as i16).to_le_bytes());
            }
            d.truncate(nbytes);
            let m = if ch == 1 { flags::ADPCM_MONO } else { flags::ADPCM_STEREO };
            let hx = |b: &[u8]| if b.is_empty() { "-".to_string() } else { hex(b) };
            let enc = std::panic::catch_unwind(|| compress(&d, m));
            let imp = match &enc { Err(_) => "panic".to_string(), Ok(Err(_)) => "err".into(), Ok(Ok(c)) => if c.len() < d.len() && c.first() == Some(&m) { hex(&c[1..]) } else { "raw".into() } };
            ctx.out.case(&format!("c03adpcmenc {ch} {}", hx(&d)), &imp);
            ctx.out.stat(&format!("c03.adpcm_model.enc.{}", if imp.len() > 5 { "stream" } else { imp.as_str() }));
            let Ok(Ok(c)) = enc else { continue; };
            if !(c.len() < d.len() && c.first() == Some(&m)) { continue; }
            let stream = c[1..].to_vec();
            let mut variants: Vec<(Vec<u8>, usize)> = vec![(stream.clone(), d.len())];
            for _ in 0..5 {
                let rng = &mut ctx.rng;
                let mut s2 = stream.clone();
                match rng.below(5) { 0 => { let p = rng.below(s2.len() as u64 + 1) as usize; s2.insert(p.max(2.min(s2.len())), *rng.pick(&[0x80u8, 0x81, 0x81, 0xFF, 0x7F])); }
                    1 => { let p = rng.below(s2.len() as u64) as usize; s2[p] ^= 1 << rng.below(8); }
                    2 => { s2.truncate(rng.below(s2.len() as u64 + 1) as usize); }
                    3 => { if s2.len() > 1 { s2[1] = *rng.pick(&[0u8, 1, 3, 4, 7, 31, 32, 200]); } }
                    _ => {} }
                let size = match rng.below(4) { 0 => d.len(), 1 => d.len().saturating_sub(2 * rng.below(3) as usize), 2 => d.len() + 2 * rng.below(3) as usize, _ => d.len() + 1 };
                variants.push((s2, size));
            }
            for (s2, size) in variants {
                let r = std::panic::catch_unwind(|| decompress(&s2, m, size));
                let imp = match r { Err(_) => Some("panic".to_string()), Ok(Ok(o)) => Some(hx(&o)),
                    Ok(Err(e)) => { let t = e.to_string(); if t.contains("Input too small for ADPCM") || t.contains("Missing initial sample") || t.contains("Invalid ADPCM bit shift") { Some("err".into()) } else { None } } };
                match imp { Some(i) => { ctx.out.stat(&format!("c03.adpcm_model.dec.{}", if i.len() > 5 { "bytes" } else { i.as_str() })); ctx.out.case(&format!("c03adpcmdec {ch} {} {size}", hx(&s2)), &i); }
                    None => ctx.out.stat("c03.adpcm_model.dec.refused_by_limits") }
            }
        }
    }
    // many blocks through the public decompress() in one process: every call stands alone (no budget shared between calls)
    {
        let d = vec![0u8; 2 << 20];
        if let Ok(c) = compress(&d, flags::SPARSE) { if c.len() < d.len() {
            let rounds = 560;
            let mut bad = None;
            for r in 0..rounds { match decompress(&c[1..], flags::SPARSE, d.len()) { Ok(o) if o.len() == d.len() => {}, Ok(o) => { bad = Some(format!("round {r}: {} bytes", o.len())); break; }, Err(e) => { bad = Some(format!("round {r}: {e}")); break; } } }
            ctx.out.oracle(bad.is_none(), "own-output-rejected-after-many-calls", &format!("2 MiB sparse block decoded {rounds} times in one process: {}", bad.unwrap_or_default()));
        } }
    }
}
